"""C05 -- Static validation is complete; every rejection is ParseError / CompilationError.

Technique: bounded-EXHAUSTIVE enumeration (E-enum) of the real parser + compiler + executor against the
reference static checker ``vt.ref.typing`` (written from the property text and the signatures declared
in the live registries).  Three enumerated spaces:

(a) TYPING MATRIX (compile only, table ``#m`` with one column per type of a 14-type universe, NULL as
    the literal): every operator node class x every ordered operand-type tuple (unary 14, binary 14x14,
    BETWEEN 14^3, AND/OR 14x14), every function name of the live registry (+ coalesce, + an unknown
    name) x every argument-type tuple of length 0..2 (length 1 also ``*``), length 3 over a reduced
    universe + every declared signature (thorough: the full 14^3, and length 4 over 4 types), attribute
    access (every attribute name of every structured type + an unknown one) and subscript on a column of
    every type.  Oracle: accept / reject equals the reference, and when both accept the announced result
    type equals the one the reference reads from the registry.  Plus the committed SIGNATURE SNAPSHOT
    (``vt/ref/signatures_snapshot.json``): every recorded overload / attribute must still resolve to the
    recorded result type (lower bound: extra overloads are fine).
(b) CLAUSE RULES: product of target kinds x WHERE x GROUP BY x HAVING x ORDER BY (the "core") and, one at
    a time (thorough: in larger products), FROM forms x PIVOT BY x extra predicate (COALESCE forms,
    IN-subquery arity, IN scalar, parameters) x DISTINCT x LIMIT, on a connection holding a real ledger
    (default ``postings`` table, needed by FROM expressions / OPEN / CLOSE / CLEAR) and a harness table
    ``#t`` with the same column names.  Every statement is fed as an AST; a deterministic subset also as
    text (``vt.unparse``, rotating spelling styles) so that error locations exist.  Oracle: accept iff
    the reference finds no violated rule; accepted statements are executed and must not fail.
(c) TEXTS: all token sequences of length <= 2 (thorough 3) over a 50-token alphabet, alone and after
    ``SELECT year``; every single-token deletion / substitution / insertion on a valid corpus (quick: a
    10-token edit alphabet; thorough: the full alphabet and two simultaneous edits on the short
    statements); literal edge cases (invalid calendar dates, 30- and 5000-digit integers in every integer
    position, ``1.`` ``.5``, empty / blank / comment-only text, deep nesting).  The corpus itself must be
    accepted.

Oracle for all parts: a statement is either executed or rejected by ``beanquery.ParseError`` /
``beanquery.CompilationError`` (both DB-API ``ProgrammingError``), or by ``ProgrammingError`` itself for a
parameter / placeholder mismatch; any other exception class from parse / compile / execute is a
violation (fingerprint = exception class + innermost beanquery frame).  An error carrying ``parseinfo``:
0 <= pos <= len(text), pos <= endpos <= len(text) (+1 only at the end-of-input marker), the line index
addresses the line of the text that contains pos, and ``beanquery.shell.render_exception`` renders it
without raising.  "text" is the text the location refers to (``parseinfo.tokenizer.text``): BALANCES /
JOURNAL errors point into the statement template they are rewritten to.

Weakest readings (S): see ``vt.ref.typing`` (EITHER verdicts) -- in particular operand tuples for which
"exact type" and "supertype" resolution disagree are not compared, an IN with an untyped right operand,
scalar sub-selects, empty COALESCE, LIMIT beyond 2**31 are only required not to raise a foreign exception.
The parameter container always fits the placeholder style (tuple for %s, dict for %(name)s; the
implementation deliberately raises TypeError otherwise).  Invalid regular expressions are data errors
(not generated).  Run-time failures are only attributed to validation when the data cannot be blamed:
harness rows hold no NULL, ORDER BY keys of unorderable types (dict, set, list, structures) are not
executed.  PRINT statements are executed through ``execute_print`` as the shell does.  AST statements
are those the grammar can produce (aliases on every non-column target; positional placeholders carry a
ParseInfo with their text position, which the binding order is defined by).
"""
import collections
import datetime
import decimal
import io
import itertools
import json
import os
import re

import tatsu.infos
from dateutil.relativedelta import relativedelta

import beanquery
import beanquery.sources.beancount  # noqa: F401  (registers the structured types)
from beancount.core import amount, data, inventory, position
from beanquery import compiler as bq_compiler
from beanquery import query_compile as qc
from beanquery import query_execute
from beanquery import shell as bq_shell
from beanquery.parser import ast

from .. import sample_ledger
from .. import unparse as U
from ..harness import HTable, select, F, C, col, crash_fingerprint
from ..par import Acc, run_shards
from ..ref import typing as RT
from ..runner import Result

LEVEL = 'model_checking'
A = ast
D = decimal.Decimal
date = datetime.date
NoneType = type(None)
SNAPSHOT = os.path.join(os.path.dirname(os.path.dirname(os.path.abspath(__file__))), 'ref', 'signatures_snapshot.json')

# ---------------------------------------------------------------------------------------------------
# connection: real ledger (postings, entries, ...) + harness tables

UNIVERSE = [int, D, str, date, bool, object, set, list, dict, amount.Amount, position.Position,
            inventory.Inventory, relativedelta, NoneType]
MCOL = {int: 'ci', D: 'cd', str: 'cs', date: 'ct', bool: 'cb', object: 'co', set: 'cset', list: 'clist',
        dict: 'meta', amount.Amount: 'camt', position.Position: 'cpos', inventory.Inventory: 'cinv',
        relativedelta: 'civ'}
REDUCED3 = [int, D, str, date, object, dict, amount.Amount, relativedelta]
REDUCED4 = [int, str, date, dict]


def tn(t):
    return 'NULL' if t is NoneType else ('*' if t is RT._bt.Asterisk else getattr(t, '__name__', str(t)))


def t_rows(seed):
    y = [(2019, 2020, 2021), (2001, 2002, 2003), (1999, 2000, 2024)][seed % 3]
    m = [(1, 2, 3), (4, 5, 6), (7, 11, 12)][(seed // 3) % 3]
    return [
        (y[0], m[0], 'a', D('1.5'), date(y[0], m[0], 1), {'k': 1}, {'x'}, [1], 5),
        (y[0], m[1], 'b', D('2'), date(y[0], m[1], 2), {'k': 2}, {'x', 'y'}, [2], 6),
        (y[1], m[0], 'a', D('0.25'), date(y[1], m[0], 3), {}, set(), [], 7),
        (y[2], m[2], 'c', D('7'), date(y[2], m[2], 4), {'j': 'v'}, {'z'}, [1, 2], 8),
    ]


T_COLS = [('year', int), ('month', int), ('account', str), ('number', D), ('date', date), ('meta', dict),
          ('tags', set), ('ls', list), ('day', int)]


def make_conn(seed=0):
    conn = sample_ledger.connect()
    conn.tables['t'] = HTable(T_COLS, t_rows(seed), name='t')
    mcols = [(MCOL[t], t) for t in UNIVERSE if t is not NoneType] + [('entry', data.Transaction)]
    conn.tables['m'] = HTable(mcols, [], name='m')
    return conn


_CONN = {}


def get_conn(seed):
    c = _CONN.get(seed)
    if c is None:
        conn = make_conn(seed)
        c = _CONN[seed] = (conn, RT.Env.from_connection(conn))
    return c


# ---------------------------------------------------------------------------------------------------
# running a statement on the real implementation, classification of the outcome

class Outcome:
    __slots__ = ('status', 'stage', 'exc', 'node', 'compiled', 'rows', 'params', 'steps')
    # status: 'accepted' | 'rejected' (allowed exception class) | 'foreign'


def default_params(node):
    """Parameters fitting the placeholders of a parsed statement (container kind fits the style)."""
    phs = RT.placeholders(node)
    if not phs:
        return None
    names = [p.name for p in phs]
    if all(names):
        return {n: 1 for n in names}
    return tuple(1 for _ in names)


def attempt(conn, stmt, params=None, auto_params=False, execute=True):
    o = Outcome()
    o.stage, o.exc, o.node, o.compiled, o.rows, o.params, o.steps = 'parse', None, None, None, None, params, 0
    try:
        node = stmt
        if isinstance(stmt, str):
            o.steps += 1
            node = conn.parse(stmt)
        o.node = node
        if auto_params and params is None:
            o.params = params = default_params(node)
        o.stage = 'compile'
        o.steps += 1
        o.compiled = bq_compiler.compile(conn, node, params)
        if execute:
            o.stage = 'execute'
            o.steps += 1
            if isinstance(o.compiled, qc.EvalPrint):
                query_execute.execute_print(o.compiled, io.StringIO())
                o.rows = []
            else:
                _, o.rows = query_execute.execute_query(o.compiled)
        o.status = 'accepted'
    except Exception as e:      # noqa: BLE001 -- the class of the exception is the property
        o.exc = e
        o.status = 'rejected' if allowed_class(e, o) else 'foreign'
    return o


def crash_fp(e, stage):
    if isinstance(e, RecursionError):
        return f'crash:RecursionError@{stage}'      # the innermost frame of a stack overflow is arbitrary
    return f'crash:{crash_fingerprint(e)}'


def allowed_class(e, o):
    if not isinstance(e, beanquery.ProgrammingError):
        return False
    if isinstance(e, (beanquery.ParseError, beanquery.CompilationError)):
        return True
    # plain ProgrammingError: only for parameter / placeholder mismatches
    return type(e) is beanquery.ProgrammingError and o.stage == 'compile' and o.node is not None \
        and bool(RT.placeholders(o.node))


_NUM = re.compile(r'\d+')
_QUO = re.compile(r'"[^"]*"|\'[^\']*\'')


def norm_message(e):
    s = str(e).split('\n')[0].split(', found:')[0]
    s = _QUO.sub('"_"', s)
    s = _NUM.sub('N', s)
    return f'{type(e).__name__}: {s[:90]}'


def check_location(e, text, acc, case, where):
    """Location carried by an error must be a valid span of the text it refers to."""
    pi = getattr(e, 'parseinfo', None)
    if pi is None:
        acc.count('errors_without_location')
        return
    acc.count('locations_checked')
    tok = getattr(pi, 'tokenizer', None)
    t = getattr(tok, 'text', None)
    if t is None:
        acc.violation('location:no-text', f'{where}: {type(e).__name__} carries a parseinfo without tokenizer text', case)
        return
    if text is not None and t != text:
        acc.count('locations_into_other_text')      # BALANCES / JOURNAL templates
    n = len(t)
    pos, endpos, line = pi.pos, pi.endpos, pi.line
    problem = None
    if not (isinstance(pos, int) and isinstance(endpos, int) and isinstance(line, int)):
        problem = 'non-integer location'
    elif not 0 <= pos <= n:
        problem = f'pos {pos} outside 0..{n}'
    elif not (pos <= endpos <= n or (pos == n and endpos == n + 1)):
        problem = f'endpos {endpos} (pos {pos}, length {n})'
    else:
        lines = t.splitlines(True) or ['']
        if not 0 <= line < len(lines):
            problem = f'line {line} of {len(lines)}'
        else:
            start = sum(len(x) for x in lines[:line])
            if not start <= pos <= start + len(lines[line]):
                problem = f'pos {pos} is not on line {line} ({start}..{start + len(lines[line])})'
    if problem:
        acc.violation(f'location:{type(e).__name__}:{problem.split(" ")[0]}',
                      f'{where}: {type(e).__name__}({e}) location pos={pos} endpos={endpos} line={line}: {problem}; text {t[:120]!r}', case)
        return
    if endpos > pos:
        acc.count('locations_nonempty')
    if line > 0:
        acc.count('locations_beyond_first_line')
    try:
        out = bq_shell.render_exception(e)
        if '^' in out:
            acc.count('locations_rendered_with_carets')
    except Exception as e2:     # noqa: BLE001
        acc.violation(f'render:{crash_fingerprint(e2)}',
                      f'{where}: render_exception({type(e).__name__}: {e}) raised {type(e2).__name__}: {e2}; text {t[:120]!r}', case)


def record_outcome(o, acc, text, case, where, prefix=''):
    """Common part of the oracle: exception class, location.  Returns True when foreign."""
    acc.count(prefix + 'evaluations')
    acc.count('stage_steps', o.steps)
    if o.status == 'accepted':
        acc.count(prefix + 'accepted')
        return False
    e = o.exc
    acc.add('exception_classes', type(e).__name__)
    acc.count(f'{prefix}raised:{type(e).__name__}@{o.stage}')
    if o.status == 'foreign':
        if isinstance(e, (beanquery.Error, beanquery.ParseError, beanquery.CompilationError)):
            fp = f'class:{type(e).__name__}-is-not-an-allowed-rejection'
        else:
            fp = crash_fp(e, o.stage)
        acc.violation(fp, f'{where}: {o.stage} raised {type(e).__name__}({"/".join(c.__name__ for c in type(e).__mro__[1:-2])}): '
                          f'{str(e)[:150]} (allowed: ParseError / CompilationError deriving from ProgrammingError, '
                          f'ProgrammingError for a parameter mismatch)', case)
        return True
    acc.count(prefix + 'rejected')
    acc.add('messages', norm_message(e))
    check_location(e, text, acc, case, where)
    return False


# ---------------------------------------------------------------------------------------------------
# (a) typing matrix

BINOPS = [A.Add, A.Sub, A.Mul, A.Div, A.Mod, A.Match, A.NotMatch, A.Equal, A.NotEqual, A.Greater, A.GreaterEq,
          A.Less, A.LessEq, A.In, A.NotIn]
UNOPS = [A.Neg, A.Not, A.IsNull, A.IsNotNull]
OPS_BY_NAME = {c.__name__: c for c in BINOPS + UNOPS + [A.And, A.Or, A.Between]}
STAR = RT._bt.Asterisk


def operand(t):
    if t is NoneType:
        return C(None)
    if t is STAR:
        return A.Asterisk()
    return col(MCOL[t])


def attribute_menu():
    names = set()
    for st in RT._bt.ALIASES.values():
        names.update(st.columns)
    return sorted(names) + ['nosuchattr']


def matrix_cases(tier):
    """Deterministic list of cases: (kind, name, types)."""
    out = []
    for op in UNOPS:
        for t in UNIVERSE:
            out.append(('op', op.__name__, (t,)))
    for op in BINOPS + [A.And, A.Or]:
        for ts in itertools.product(UNIVERSE, repeat=2):
            out.append(('op', op.__name__, ts))
    for ts in itertools.product(UNIVERSE, repeat=3):
        out.append(('op', 'Between', ts))
    names = RT.function_names()
    for extra in ('coalesce', 'nosuchfunction'):
        if extra not in names:
            names.append(extra)
    u3 = REDUCED3 if tier == 'quick' else UNIVERSE
    for name in names:
        out.append(('func', name, ()))
        for t in UNIVERSE + [STAR]:
            out.append(('func', name, (t,)))
        for ts in itertools.product(UNIVERSE, repeat=2):
            out.append(('func', name, ts))
        seen = set()
        for ts in itertools.product(u3, repeat=3):
            seen.add(ts)
            out.append(('func', name, ts))
        # every declared signature of length >= 3 (Any -> str), so that each such overload is hit
        for ov in RT.function_overloads(name):
            sig = tuple(str if x is RT._bt.Any else x for x in RT.intypes(ov))
            if len(sig) >= 3 and sig not in seen and all(x in MCOL or x is NoneType for x in sig):
                seen.add(sig)
                out.append(('func', name, sig))
        if tier != 'quick':
            for ts in itertools.product(REDUCED4, repeat=4):
                out.append(('func', name, ts))
    # the same operator / function cases over CONSTANT operands (compile-time folding is a separate code path):
    # the verdict depends on the operand types only
    for kind, name, ts in list(out):
        if kind in ('op', 'func') and ts and len(ts) <= 3 and all(t in CONST_OPERAND for t in ts) and any(t is not NoneType for t in ts):
            out.append((kind + '-const', name, ts))
    for t in UNIVERSE:
        for attr in attribute_menu():
            out.append(('attr', attr, (t,)))
        out.append(('subscript', 'k', (t,)))
    out.append(('attr', 'meta', ('entry',)))
    out.append(('attr2', 'units.number', (position.Position,)))
    out.append(('attr2', 'cost.date', (position.Position,)))
    out.append(('attr2', 'units.nosuch', (position.Position,)))
    out.append(('subscript-entry-meta', 'k', ('entry',)))
    return out


CONST_OPERAND = {int: 1, decimal.Decimal: decimal.Decimal('1.5'), str: 'a', datetime.date: datetime.date(2020, 1, 2), bool: True, NoneType: None}


def matrix_expr(kind, name, ts):
    if kind.endswith('-const'):
        ops = [C(CONST_OPERAND[t]) for t in ts]
        if kind == 'func-const':
            return A.Function(name, ops)
        cls = OPS_BY_NAME[name]
        return cls(ops) if cls in (A.And, A.Or) else cls(*ops)
    if kind == 'op':
        cls = OPS_BY_NAME[name]
        ops = [operand(t) for t in ts]
        if cls in (A.And, A.Or):
            return cls(ops)
        return cls(*ops)
    if kind == 'func':
        return A.Function(name, [operand(t) for t in ts])
    base = col('entry') if ts[0] == 'entry' else operand(ts[0])
    if kind == 'attr':
        return A.Attribute(base, name)
    if kind == 'attr2':
        a, b = name.split('.')
        return A.Attribute(A.Attribute(base, a), b)
    if kind == 'subscript':
        return A.Subscript(base, name)
    if kind == 'subscript-entry-meta':
        return A.Subscript(A.Attribute(base, 'meta'), name)
    raise KeyError(kind)


def case_label(kind, name, ts):
    return f'{name}[{",".join(t if isinstance(t, str) else tn(t) for t in ts)}]' if kind == 'op' else \
        f'{name}({",".join(t if isinstance(t, str) else tn(t) for t in ts)})' if kind == 'func' else \
        f'{kind}:{",".join(t if isinstance(t, str) else tn(t) for t in ts)}.{name}'


def typing_fp(verdict_rules, kind, name):
    if 'R-operator-in' in verdict_rules:
        return 'accept:R-operator-in'
    return f'typing:accept:{name if kind in ("op", "func") else kind}'


def check_matrix_case(conn, env, kind, name, ts, acc):
    expr = matrix_expr(kind, name, ts)
    case = {'part': 'a', 'kind': kind, 'name': name, 'types': [t if isinstance(t, str) else RT.type_key(t) for t in ts]}
    const = kind.endswith('-const')
    kind = kind.replace('-const', '')
    label = case_label(kind, name, ts) + (' over constants' if const else '')
    stmt = select([(expr, 'r')], from_='m')
    acc.count('a_cases')
    acc.count(f'a_kind:{kind}')
    ref, rtype = RT.check_expression(expr, env.tables['m'], env)
    o = attempt(conn, stmt, execute=False)
    where = Lazy(lambda: f'SELECT {show(expr)} FROM #m  [{label}]')
    acc.count(f'a_ref:{ref.verdict}')
    if record_outcome(o, acc, None, case, where, prefix='a_'):
        return
    got = o.status == 'accepted'
    if ref.verdict == RT.EITHER:
        acc.count('a_not_compared')
        for q in ref.open:
            acc.count(f'a_open:{q}')
        return
    acc.count('a_compared')
    if got and ref.verdict == RT.REJECT:
        acc.violation(typing_fp(ref.rules, kind, name),
                      f'{where} is accepted by the type checker; the reference finds no overload / name ({ref.rules}, {ref.loci[:2]})', case)
        return
    if not got and ref.verdict == RT.ACCEPT:
        loc = label if kind == 'op' else (name if kind == 'func' else kind)
        acc.violation(f'typing:reject:{loc}', f'{where} is rejected ({o.exc}); the declared signatures resolve it to {tn(rtype)}', case)
        return
    if got:
        acc.count('a_both_accept')
        acc.add('a_accepted_loci', (kind, name))
        impl_t = o.compiled.c_targets[0].c_expr.dtype
        if rtype is not RT.UNKNOWN and impl_t is not rtype:
            acc.violation(f'typing:outtype:{name if kind in ("op", "func") else kind}',
                          f'{where}: announced type {tn(impl_t)}, the declared signatures say {tn(rtype)}', case)
    else:
        acc.count('a_both_reject')
        for r in ref.rules:
            acc.count(f'a_rule:{r}')


def load_snapshot():
    with open(SNAPSHOT) as f:
        return json.load(f)['items']


def snapshot_conn(items):
    keys = []
    for it in items:
        for k in it['in'] + [it['out']]:
            if k and k not in keys:
                keys.append(k)
    types_, missing = {}, []
    for k in keys:
        try:
            types_[k] = RT.type_from_key(k)
        except Exception:      # noqa: BLE001
            missing.append(k)
    cols, names = [], {}
    for i, (k, t) in enumerate(types_.items()):
        if t is RT._bt.Any or t is STAR or not isinstance(t, type):
            continue
        n = 'meta' if t is dict else ('entry' if t is data.Transaction else f's{i}')
        names[k] = n
        cols.append((n, t))
    if 'entry' not in [c for c, _ in cols]:
        cols.append(('entry', data.Transaction))
    if 'meta' not in [c for c, _ in cols]:
        cols.append(('meta', dict))
    conn = beanquery.Connection()
    conn.tables['snap'] = HTable(cols, [], name='snap')
    return conn, types_, names, missing


def check_snapshot(acc, shard, nshards):
    items = load_snapshot()
    conn, types_, names, missing = snapshot_conn(items)
    for i, it in enumerate(items):
        if i % nshards != shard:
            continue
        acc.count('snapshot_items')
        case = {'part': 'a', 'kind': 'snapshot', 'item': it}
        label = f'{it["kind"]} {it["name"]}({", ".join(k.split(":")[1] for k in it["in"])}) -> {(it["out"] or "?").split(":")[-1]}'
        if any(k in missing for k in it['in'] + [it['out']]):
            acc.violation(f'snapshot:{it["kind"]}:{it["name"]}', f'{label}: a type of the recorded signature no longer exists', case)
            continue
        ops = [A.Asterisk() if types_[k] is STAR else col(names[k]) for k in it['in']]
        if it['kind'] == 'operator':
            cls = OPS_BY_NAME[it['name']]
            expr = cls(*ops)
        elif it['kind'] == 'function':
            expr = A.Function(it['name'], ops)
        else:
            expr = A.Attribute(ops[0], it['name'])
        o = attempt(conn, select([(expr, 'r')], from_='snap'), execute=False)
        if o.status != 'accepted':
            acc.violation(f'snapshot:{it["kind"]}:{it["name"]}[{",".join(k.split(":")[1] for k in it["in"])}]',
                          f'recorded signature {label} no longer resolves: {type(o.exc).__name__}: {o.exc}', case)
            continue
        got = o.compiled.c_targets[0].c_expr.dtype
        if it['out'] and got is not types_[it['out']]:
            acc.violation(f'snapshot:{it["kind"]}:{it["name"]}[{",".join(k.split(":")[1] for k in it["in"])}]',
                          f'recorded signature {label} now announces {tn(got)}', case)
            continue
        acc.count('snapshot_ok')


class Lazy:
    """Text computed only when it is printed (statement texts are needed for violations only)."""

    def __init__(self, fn):
        self.fn = fn

    def __format__(self, spec):
        return format(self.fn(), spec)

    def __str__(self):
        return self.fn()


def show(node):
    try:
        return U.unparse(node)
    except Exception:      # noqa: BLE001
        return repr(node)[:300]


# ---------------------------------------------------------------------------------------------------
# driver

TEXT_EVERY = {'quick': 877, 'thorough': 1901}


def all_texts(tier):
    """(kind, text) in deterministic order, duplicates removed."""
    seen = set()
    for t in CORPUS:
        seen.add(t)
        yield 'corpus', t
    for t in MUST_REJECT:
        seen.add(t)
        yield 'must-reject', t
    for kind, gen in (('literal', literal_texts()), ('ngram', ngram_texts(2 if tier == 'quick' else 3)), ('edit', edit_texts(tier))):
        for t in gen:
            if t not in seen:
                seen.add(t)
                yield kind, t


def parts_selected():
    """Development aid: VERIF_C05_PARTS=ab runs only some parts (a, b, c; l = corpus + literal texts only).
    The evidence then says exhaustive=False."""
    return os.environ.get('VERIF_C05_PARTS') or 'abc'


def shard_fn(shard, nshards, tier, seed):
    acc = Acc()
    conn, env = get_conn(seed)
    parts = parts_selected()
    # (a)
    for i, (kind, name, ts) in enumerate(matrix_cases(tier) if 'a' in parts else ()):
        if i % nshards == shard:
            check_matrix_case(conn, env, kind, name, ts, acc)
            if i % 9973 == 0:
                acc.sample({'typing': case_label(kind, name, ts)})
    if 'a' in parts:
        check_snapshot(acc, shard, nshards)
    # (b)
    every = TEXT_EVERY[tier]
    i = -1
    for i, cfg in enumerate(clause_plan(tier) if 'b' in parts else ()):
        if i % nshards == shard:
            check_clause(conn, env, cfg, acc, seed)
            if i % 100003 == 0:
                b = build_stmt(cfg)
                if b:
                    acc.sample({'clause': show(b[0]), 'cfg': list(cfg)})
        if i % every == 0 and (i // every) % nshards == shard:
            check_clause(conn, env, cfg, acc, seed, via='text', style=(i // every) % 4)
    acc.add('b_configs', i + 1)
    # (c)
    for i, (kind, text) in enumerate(all_texts(tier) if ('c' in parts or 'l' in parts) else ()):
        if 'c' not in parts and kind not in ('corpus', 'literal'):
            break
        if i % nshards == shard:
            check_text(conn, text, acc, kind, must_accept=(kind == 'corpus'))
    return acc


def replay(c):
    acc = Acc()
    seed = c.get('seed', 0)
    conn, env = get_conn(seed)
    if c['part'] == 'a':
        if c['kind'] == 'snapshot':
            items = load_snapshot()
            idx = [i for i, it in enumerate(items) if it == c['item']]
            if idx:
                check_snapshot(acc, idx[0], len(items))
        else:
            ts = tuple(k if k == 'entry' else RT.type_from_key(k) for k in c['types'])
            check_matrix_case(conn, env, c['kind'], c['name'], ts, acc)
    elif c['part'] == 'b':
        check_clause(conn, env, tuple(c['cfg']), acc, seed, via=c.get('via', 'ast'), style=c.get('style', 0))
    else:
        check_text(conn, c['text'], acc, c.get('kind', 'replay'), must_accept=(c.get('kind') == 'corpus'))
    return acc.violations


def run(ctx):
    acc = run_shards(shard_fn, ctx.jobs, ctx.tier, ctx.seed)
    n = acc.n
    prefix = lambda p: {k[len(p):]: v for k, v in sorted(n.items()) if k.startswith(p)}      # noqa: E731
    states = n['a_cases'] + n['snapshot_items'] + n['b_statements'] - n['b_text_statements'] + n['c_texts']
    cov = {
        'states': states,                                         # distinct cases (a text-route statement is the same configuration again)
        'transitions': n['stage_steps'] + n['b_executed'] + n['snapshot_items'],      # parse / compile / execute stages entered on the real implementation
        'traces_validated_against_impl': n['a_compared'] + n['b_compared'] + n['snapshot_ok'] + n['c_texts'],   # cases with a definite oracle verdict
        'evaluations': states + n['b_text_statements'],
        'distinct_nontrivial': len(acc.sets['b_outcomes']) + len(acc.sets['a_accepted_loci']) + len(acc.sets['messages']),
        'rule': 'a case = one statement (typing-matrix expression as the only target; one clause-rule configuration, as AST or as printed text; one '
                'text) run through parse / compile / execute of the real implementation and compared with the reference verdict (parts a, b) and with '
                'the exception-class + location oracle (all parts); distinct_nontrivial = distinct (reference verdict, violated rule set) outcomes of '
                'part b + distinct operators / functions accepted in part a + distinct normalised rejection messages',
        'exhaustive': parts_selected() == 'abc',
        'parts_run': parts_selected(),
        'bound': {
            'a': f'{len(UNIVERSE)}-type universe; unary, binary (14x14), AND/OR, BETWEEN (14^3), every registered function name x argument tuples of length 0..2 '
                 f'(+ `*`), length 3 over {"8 types + every declared signature" if ctx.quick else "14 types, length 4 over 4 types"}; attributes and subscripts on every type; signature snapshot',
            'b': f'{sorted(acc.sets["b_configs"])} configurations enumerated (configurations that denote no statement are skipped): full core '
                 f'{len(T_KINDS)} targets x {len(W_KINDS)} WHERE x {len(G_KINDS)} GROUP BY x {len(H_KINDS)} HAVING x {len(O_KINDS)} ORDER BY; '
                 + ('every value of FROM / PIVOT / extra predicate / DISTINCT / LIMIT x the reduced core' if ctx.quick else
                    'every value of FROM / PIVOT / extra predicate / DISTINCT / LIMIT x the full core; reduced core x FROM x PIVOT x DISTINCT; reduced core x FROM x extra predicate')
                 + f'; every {TEXT_EVERY[ctx.tier]}th configuration also through its printed text',
            'c': f'token sequences of length <= {2 if ctx.quick else 3} over {len(TOKENS)} tokens, alone and after "SELECT year"; single-token edits of {len(CORPUS)} '
                 f'corpus statements over {"a 10-token" if ctx.quick else "the full"} alphabet' + ('' if ctx.quick else f', double edits of the statements of <= {DOUBLE_EDIT_MAXLEN} tokens')
                 + f'; {len(literal_texts())} literal edge cases',
        },
        'typing_matrix': prefix('a_'),
        'clause_rules': {k: v for k, v in prefix('b_').items() if not k.startswith('rule:') and not k.startswith('open:')},
        'clause_rules_rejected_per_rule (reference)': prefix('b_rule:'),
        'clause_rules_open_questions (not compared)': prefix('b_open:'),
        'texts': prefix('c_'),
        'snapshot': {'items': n['snapshot_items'], 'still_resolving': n['snapshot_ok']},
        'locations': {k: v for k, v in sorted(n.items()) if k.startswith('locations_') or k == 'errors_without_location'},
        'exception_classes_seen': sorted(acc.sets['exception_classes']),
        'distinct_rejection_messages': sorted(acc.sets['messages']),
        'accepted_statement_kinds_in_texts': sorted(acc.sets['c_accepted_statement_kinds']),
        'violating_cases': n['violating_cases'],
        'samples': acc.samples,
    }
    return Result(cov, acc.violations, assumptions=[
        'reference checker vt/ref/typing.py written from the property text; signatures, result types, aggregator kind, structure attributes and '
        'column types are read from the live registries / tables (declared data, not the compiler)',
        'EITHER verdicts (not compared, only the exception class is checked): operand tuples on which exact-type and supertype overload resolution '
        'disagree (bool, Amount, Position, Inventory, NULL literal), IN with an untyped right operand, scalar sub-selects, COALESCE without arguments or '
        'with a NULL literal, aggregate in ORDER BY of a plain query, references to duplicated / shadowed names, surplus named parameters, LIMIT >= 2**31',
        'implicit grouping (aggregate query without GROUP BY clause: its non-aggregate targets are the keys) is accepted; constants are non-aggregate targets',
        'parameter container fits the placeholder style; invalid regular expressions, NULL keys and unorderable ORDER BY keys are data, not validation',
        'locations are checked against the text they refer to (parseinfo.tokenizer.text); BALANCES / JOURNAL errors refer to their rewriting template',
    ])


def write_snapshot():
    items = RT.snapshot_items()
    with open(SNAPSHOT, 'w') as f:
        json.dump({'_doc': 'Signatures (operators, functions, structure attributes) of the tree the check was built on; '
                           'lower bound checked by C05: each must still resolve to the recorded result type.',
                   'items': items}, f, indent=0, sort_keys=True)
        f.write('\n')
    return len(items)


if __name__ == '__main__':
    import sys
    if '--write-snapshot' in sys.argv:
        print(write_snapshot(), 'items written to', SNAPSHOT)


# ---------------------------------------------------------------------------------------------------
# (b) clause rules

Y, M, AC, META, TAGS, LS = col('year'), col('month'), col('account'), col('meta'), col('tags'), col('ls')
AGG = F('sum', M)
CNT = F('count', A.Asterisk())
ASC = A.Ordering.ASC
DESC = A.Ordering.DESC


def _sub(targets, table='t'):
    return select([(e, None) for e in targets], from_=table)


def _ph(name, k=0):
    """Placeholder node; positional ones carry their text position (defines the binding order)."""
    if name == '':
        return A.Placeholder('', parseinfo=tatsu.infos.ParseInfo(None, 'placeholder', 1000 + k, 1002 + k, 0, 0))
    return A.Placeholder(name)


T_KINDS = collections.OrderedDict([
    ('col', [(Y, 'k')]),
    ('col2', [(Y, 'k'), (AC, 's')]),
    ('agg', [(AGG, 'a')]),
    ('col,agg', [(Y, 'k'), (AGG, 'a')]),
    ('col2,agg', [(Y, 'k'), (AC, 's'), (CNT, 'n')]),
    ('aggagg', [(F('sum', AGG), 'a')]),
    # the inner aggregate below intermediate nodes (operator / function / several levels)
    ('aggagg-indirect', [(F('sum', A.Mul(AGG, C(2))), 'a')]),
    ('aggagg-deep', [(F('max', A.Sub(M, A.Neg(F('min', M)))), 'a'), (CNT, 'n')]),
    ('mixed', [(A.Add(Y, AGG), 'a')]),
    ('agg+const', [(A.Add(AGG, C(1)), 'a')]),
    ('const', [(C(1), 'c')]),
    ('const,agg', [(C(1), 'c'), (CNT, 'n')]),
    ('subselect', [(select([(F('max', Y), 'x')], from_='t'), 'q')]),
    ('expr,agg', [(A.Mod(Y, C(2)), 'k'), (AGG, 'a')]),
    # name resolution / other kinds (full core only)
    ('star', None),
    ('dupnames', [(Y, 'k'), (AC, 'k')]),
    ('unhashable', [(META, 'k')]),
    ('plaincol', [(Y, None), (AC, None)]),
    ('unknown-col', [(col('nope'), 'k')]),
    ('unknown-func', [(F('nosuchfunc', Y), 'k')]),
    ('illtyped', [(A.Add(AC, C(1)), 'k')]),
    ('attr-bad', [(A.Attribute(Y, 'foo'), 'k')]),
    ('subscript', [(A.Subscript(META, 'k'), 'k'), (A.Subscript(Y, 'k'), 'j')]),
])
T_RED = ['col', 'col2', 'agg', 'col,agg', 'col2,agg', 'aggagg', 'aggagg-indirect', 'aggagg-deep', 'mixed', 'agg+const', 'const', 'const,agg', 'subselect', 'expr,agg', 'unhashable']

W_KINDS = collections.OrderedDict([
    ('none', None),
    ('plain', A.Greater(M, C(0))),
    ('agg', A.Greater(AGG, C(0))),
    ('unknown-col', A.Equal(col('nope'), C(1))),
    ('illtyped', A.Greater(AC, C(1))),
])
W_RED = ['none', 'plain', 'agg']

G_KINDS = ['none', 'col', 'alias', 'idx0', 'idx1', 'idxn', 'idxn1', 'aggexpr', 'idxagg', 'unhash-dict', 'all',
           'unhash-set', 'unhash-list', 'col2', 'expr', 'unknown']
G_RED = G_KINDS[:11]
H_KINDS = collections.OrderedDict([
    ('none', None),
    ('agg', A.Greater(CNT, C(0))),
    ('plain', A.Greater(Y, C(0))),
    ('mixed', A.Greater(AGG, Y)),
])
H_RED = ['none', 'agg', 'plain']
O_KINDS = ['none', 'idx1', 'idx0', 'idxn1', 'alias', 'ungrouped-col', 'agg', 'mixed', 'idxn', 'col', 'idx1-desc', 'unknown']
O_RED = O_KINDS[:8]

OPEN_D = date(2019, 2, 1)
F_KINDS = collections.OrderedDict([
    ('table', 't'),
    ('unknown-table', 'nope'),
    ('sub-star', select(A.Asterisk(), from_='t')),
    ('sub-cols', select([(Y, None), (M, None), (AC, None)], from_='t')),
    ('sub-bad', select([(col('nope'), None)], from_='t')),
    ('default', None),
    ('expr', A.From(A.Greater(Y, C(0)))),
    ('expr-agg', A.From(A.Greater(AGG, C(0)))),
    ('expr-unknown', A.From(A.Equal(col('nope'), C(1)))),
    ('open>close', A.From(None, date(2019, 3, 1), OPEN_D)),
    ('open=close', A.From(None, OPEN_D, OPEN_D)),
    ('open<close', A.From(None, OPEN_D, date(2019, 3, 1))),
    ('open-close-nodate', A.From(None, OPEN_D, True)),
    ('close-only', A.From(None, None, True)),
    ('clear', A.From(None, None, None, True)),
    ('expr-open>close-clear', A.From(A.Greater(Y, C(0)), date(2019, 3, 1), OPEN_D, True)),
])
F_X_KINDS = ['unknown-table', 'sub-star', 'default', 'expr', 'expr-agg', 'open>close', 'open-close-nodate']
P_KINDS = ['none', '1,2', '2,1', '1,1', '2,2', '1,n+1', '0,2', 'names', 'name,nope', '3,2']
X_KINDS = collections.OrderedDict([
    ('none', (None, None)),
    ('coalesce-uniform', (A.Greater(F('coalesce', M, Y), C(0)), None)),
    ('coalesce-mixed', (A.IsNotNull(F('coalesce', M, AC)), None)),
    ('coalesce-empty', (A.IsNull(F('coalesce')), None)),
    ('coalesce-null', (A.IsNotNull(F('coalesce', M, C(None))), None)),
    ('in-sub-1', (A.In(Y, _sub([Y])), None)),
    ('in-sub-2', (A.In(Y, _sub([Y, M])), None)),
    ('notin-sub-2', (A.NotIn(Y, _sub([Y, M])), None)),
    ('in-sub-star', (A.In(Y, select(A.Asterisk(), from_='t')), None)),
    ('notin-sub-star-where', (A.NotIn(Y, select(A.Asterisk(), from_='t', where=A.Greater(Y, C(0)))), None)),
    ('in-sub-pivot', (A.In(Y, select([(Y, None), (M, None), (F('count', A.Asterisk()), 'n')], from_='t', group_by=A.GroupBy([1, 2], None), pivot_by=A.PivotBy([1, 2]))), None)),
    ('notin-sub-pivot-1col', (A.NotIn(Y, select([(Y, None), (M, None)], from_='t', group_by=A.GroupBy([1, 2], None), pivot_by=A.PivotBy([1, 2]))), None)),
    ('in-sub-bad', (A.In(Y, _sub([col('nope')])), None)),
    ('in-sub-unknown-table', (A.In(Y, _sub([Y], 'nope')), None)),
    ('in-list', (A.In(Y, C([2019, 2001, 1999])), None)),
    ('in-scalar', (A.In(Y, C(1)), None)),
    ('in-str', (A.NotIn(AC, C('abc')), None)),
    ('scalar-sub-operand', (A.Greater(select([(F('max', Y), 'x')], from_='t'), C(0)), None)),
    ('param-pos-match', (A.Greater(M, _ph('')), (0,))),
    ('param-pos-few', (A.And([A.Greater(M, _ph('', 0)), A.Less(M, _ph('', 5))]), (0,))),
    ('param-pos-many', (A.Greater(M, _ph('')), (0, 1))),
    ('param-pos-none', (A.Greater(M, _ph('')), ())),
    ('param-named-match', (A.Greater(M, _ph('p')), {'p': 0})),
    ('param-named-missing', (A.Greater(M, _ph('p')), {'q': 0})),
    ('param-named-extra', (A.Greater(M, _ph('p')), {'p': 0, 'q': 1})),
    ('param-mixed', (A.And([A.Greater(M, _ph('')), A.Greater(Y, _ph('p'))]), (0, 1))),
    ('param-mixed-dict', (A.And([A.Greater(M, _ph('')), A.Greater(Y, _ph('p'))]), {'p': 1})),
])
D_KINDS = [None, True]
L_KINDS = [None, 0, 1, 10 ** 30]
DEFAULTS = {'F': 'table', 'P': 'none', 'X': 'none', 'D': None, 'L': None}
ORDERABLE = (int, D, str, date, bool)


def build_stmt(cfg):
    """cfg = (T, W, G, H, O, F, P, X, D, L) by name -> (Select, params) or None when the combination does
    not denote a statement (HAVING without GROUP BY, index of an aggregate target when there is none ...)."""
    tk, wk, gk, hk, ok, fk, pk, xk, dk, lk = cfg
    tlist = T_KINDS[tk]
    if tlist is None:
        targets = A.Asterisk()
        n, names, aggidx, nonagg = None, [], [], []
    else:
        targets = [A.Target(e, nm) for e, nm in tlist]
        n = len(tlist)
        names = [nm if nm is not None else e.name for e, nm in tlist]
        aggidx = [i for i, (e, _) in enumerate(tlist) if RT.aggregates(e)]
        nonagg = [i for i in range(n) if i not in aggidx]
    nn = n if n is not None else 9      # `*` over #t: 9 columns (over postings 5: then idxn is out of range)
    where = W_KINDS[wk]
    extra, params = X_KINDS[xk]
    if extra is not None:
        where = extra if where is None else A.And([where, extra])
    # GROUP BY
    if gk == 'none':
        if hk != 'none':
            return None
        gb = None
    else:
        if gk == 'col':
            keys = [Y]
        elif gk == 'alias':
            keys = [col(names[0] if names else 'k')]
        elif gk == 'idx0':
            keys = [0]
        elif gk == 'idx1':
            keys = [1]
        elif gk == 'idxn':
            keys = [nn]
        elif gk == 'idxn1':
            keys = [nn + 1]
        elif gk == 'aggexpr':
            keys = [AGG]
        elif gk == 'idxagg':
            if not aggidx:
                return None
            keys = [aggidx[0] + 1]
        elif gk == 'unhash-dict':
            keys = [META]
        elif gk == 'unhash-set':
            keys = [TAGS]
        elif gk == 'unhash-list':
            keys = [LS]
        elif gk == 'all':
            if not nonagg or len(nonagg) == n == 1:
                return None
            keys = [i + 1 for i in nonagg]
        elif gk == 'col2':
            keys = [Y, AC]
        elif gk == 'expr':
            keys = [A.Mod(Y, C(2))]
        elif gk == 'unknown':
            keys = [col('nope')]
        else:
            raise KeyError(gk)
        gb = A.GroupBy(keys, H_KINDS[hk])
    # ORDER BY
    if ok == 'none':
        ob = None
    else:
        item = {'idx1': 1, 'idx0': 0, 'idxn1': nn + 1, 'idxn': nn, 'idx1-desc': 1,
                'alias': col(names[0] if names else 'k'), 'ungrouped-col': AC, 'agg': AGG,
                'mixed': A.Add(AGG, Y), 'col': Y, 'unknown': col('nope')}[ok]
        ob = [A.OrderBy(item, DESC if ok == 'idx1-desc' else ASC)]
    # PIVOT BY
    if pk == 'none':
        pv = None
    else:
        n1 = names[0] if names else 'year'
        n2 = names[1] if len(names) > 1 else 'nope'
        pv = A.PivotBy({'1,2': [1, 2], '2,1': [2, 1], '1,1': [1, 1], '2,2': [2, 2], '1,n+1': [1, nn + 1], '0,2': [0, 2],
                        'names': [col(n1), col(n2)], 'name,nope': [col(n1), col('nope')], '3,2': [3, 2]}[pk])
    return A.Select(targets, _from_node(fk), where, gb, ob, pv, lk, dk), params


def _from_node(fk):
    f = F_KINDS[fk]
    return A.Table(f) if isinstance(f, str) else f


def core(tk=None, wk=None, gk=None, hk=None, ok=None):
    tk = tk or list(T_KINDS)
    wk = wk or list(W_KINDS)
    gk = gk or G_KINDS
    hk = hk or list(H_KINDS)
    ok = ok or O_KINDS
    for t in tk:
        for w in wk:
            for g in gk:
                for h in (hk if g != 'none' else ['none']):
                    for o in ok:
                        yield (t, w, g, h, o)


def clause_plan(tier):
    """Deterministic enumeration of configurations."""
    dflt = (DEFAULTS['F'], DEFAULTS['P'], DEFAULTS['X'], DEFAULTS['D'], DEFAULTS['L'])
    others = [('F', k) for k in F_KINDS if k != 'table'] + [('P', k) for k in P_KINDS if k != 'none'] + \
             [('X', k) for k in X_KINDS if k != 'none'] + [('D', True)] + [('L', k) for k in L_KINDS if k is not None]

    def with_(dim, v):
        d = dict(DEFAULTS)
        d[dim] = v
        return (d['F'], d['P'], d['X'], d['D'], d['L'])

    # A: the full core
    for c in core():
        yield c + dflt
    red = list(core(T_RED, W_RED, G_RED, H_RED, O_RED))
    if tier == 'quick':
        # B: every other dimension value x the reduced core
        for dim, v in others:
            tail = with_(dim, v)
            for c in red:
                yield c + tail
        return
    # thorough: every other dimension value x the FULL core
    for dim, v in others:
        tail = with_(dim, v)
        for c in core():
            yield c + tail
    # reduced core x FROM x PIVOT x DISTINCT (full product; the all-default corner was done above)
    for fk in F_KINDS:
        for pk in P_KINDS:
            for dk in D_KINDS:
                if (fk != 'table') + (pk != 'none') + (dk is not None) < 2:
                    continue
                for c in red:
                    yield c + (fk, pk, 'none', dk, None)
    # reduced core x FROM x extra predicate
    for fk in F_X_KINDS:
        for xk in X_KINDS:
            if xk == 'none':
                continue
            for c in red:
                yield c + (fk, 'none', xk, None, None)


def order_key_types(stmt, ref):
    """dtypes of the ORDER BY keys and PIVOT columns as far as the reference knows them."""
    out = []
    names, types_ = ref.names or [], ref.types or []
    for ob in (stmt.order_by or []):
        it = ob.column
        if isinstance(it, int):
            if 1 <= it <= len(types_):
                out.append(types_[it - 1])
        elif isinstance(it, A.Column) and it.name in names:
            out.append(types_[names.index(it.name)])
        elif isinstance(it, A.Column) and it.name in dict(T_COLS):
            out.append(dict(T_COLS)[it.name])
    if stmt.pivot_by is not None:
        for it in stmt.pivot_by.columns:
            if isinstance(it, int) and 1 <= it <= len(types_):
                out.append(types_[it - 1])
            elif isinstance(it, A.Column) and it.name in names:
                out.append(types_[names.index(it.name)])
    return out


def impl_reject_fp(e):
    s = _QUO.sub('"_"', str(e).split('\n')[0])
    s = _NUM.sub('N', s).split(':')[0]
    return f'reject:{s[:70]}'


def check_clause(conn, env, cfg, acc, seed, via='ast', style=0):
    built = build_stmt(cfg)
    if built is None:
        return
    stmt, params = built
    case = {'part': 'b', 'cfg': list(cfg), 'seed': seed, 'via': via, 'style': style}
    text = None
    if via == 'text':
        try:
            text = U.unparse(stmt, style=style, salt=seed)
        except U.NotExpressible:
            acc.count('b_text_not_expressible')
            return
        acc.count('b_text_statements')
        o = attempt(conn, text, params, execute=False)
        if o.stage == 'parse':
            record_outcome(o, acc, text, case, f'{text!r}', prefix='b_')
            if o.status != 'foreign':
                acc.violation('parse:printed-statement-rejected', f'the printed form {text!r} of a clause-rule statement does not parse', case)
            return
        stmt = o.node
    ref = RT.check(stmt, env, params)
    acc.count('b_statements')
    acc.count(f'b_ref:{ref.verdict}')
    for r in ref.rules:
        acc.count(f'b_rule:{r}')
    for q in ref.open:
        acc.count(f'b_open:{q}')
    executable = all(t in ORDERABLE for t in order_key_types(stmt, ref))
    o = attempt(conn, stmt, params, execute=False)     # text route: the parsed AST (its nodes carry the locations)
    where = Lazy(lambda: show(stmt) + (f'  params={params!r}' if params is not None else '') + (f'  [text: {text!r}]' if text else ''))
    if record_outcome(o, acc, text, case, where, prefix='b_'):
        return
    got = o.status == 'accepted'
    if got and ref.verdict == RT.REJECT:
        for r in ref.rules:
            acc.violation(f'accept:{r}', f'{where} is accepted; the property rejects it: {ref.loci}', case)
        return
    if not got and ref.verdict == RT.ACCEPT:
        acc.violation(impl_reject_fp(o.exc), f'{where} is rejected ({type(o.exc).__name__}: {o.exc}); no rule of the property is violated', case)
        return
    if ref.verdict == RT.EITHER:
        acc.count('b_not_compared')
    else:
        acc.count('b_compared')
        acc.add('b_outcomes', (ref.verdict, tuple(ref.rules)))
    if not got:
        return
    # accepted: must run
    if not executable:
        acc.count('b_exec_skipped_unorderable_key')
        return
    try:
        _, rows = query_execute.execute_query(o.compiled)
        acc.count('b_executed')
        acc.count('b_rows', len(rows))
        if not rows:
            acc.count('b_empty_results')
    except Exception as e:      # noqa: BLE001
        acc.add('exception_classes', type(e).__name__)
        kind = 'runtime' if not isinstance(e, beanquery.ProgrammingError) else 'runtime-rejection'
        if kind == 'runtime-rejection':
            acc.count('b_rejected_at_run_time')
            check_location(e, text, acc, case, where)
            return
        acc.violation(crash_fp(e, 'execute'),
                      f'{where} passes validation (reference: {ref.verdict} {ref.open}) and fails at run time with {type(e).__name__}: {str(e)[:120]}', case)


# ---------------------------------------------------------------------------------------------------
# (c) texts

TOKENS = ['SELECT', 'DISTINCT', 'FROM', 'WHERE', 'GROUP', 'BY', 'ORDER', 'PIVOT', 'HAVING', 'LIMIT', 'AS', 'AND', 'OR',
          'NOT', 'IN', 'IS', 'NULL', 'TRUE', 'BETWEEN', 'DESC', 'OPEN', 'CLOSE', 'CLEAR', 'ON', 'AT', 'BALANCES',
          'JOURNAL', 'PRINT', 'year', 'sum', '(', ')', ',', '.', '[', ']', '*', '+', '-', '/', '=', '!=', '<', '~',
          '1', '1.5', '2019-01-01', "'s'", '#t', '%s', '%(p)s', ';']
EDIT_TOKENS_QUICK = ['SELECT', 'FROM', 'BY', 'AND', 'year', '(', ')', ',', '1', "'s'"]
PREFIXES = ['', 'SELECT year']

CORPUS = [
    "SELECT year",
    "SELECT year , month FROM #t",
    "SELECT * FROM #t",
    "SELECT DISTINCT account FROM #t",
    "SELECT year AS k , sum ( month ) AS a FROM #t GROUP BY k",
    "SELECT year , count ( * ) FROM #t GROUP BY 1 ORDER BY 2 DESC",
    "SELECT year , account , count ( * ) AS n FROM #t GROUP BY year , account PIVOT BY 1 , 2",
    "SELECT account FROM #t WHERE month > 1 AND year = 2019",
    "SELECT account FROM #t WHERE NOT month = 1 OR year IS NULL",
    "SELECT account FROM #t WHERE month BETWEEN 1 AND 2",
    "SELECT account FROM #t WHERE year IN ( 2019 , 2020 )",
    "SELECT account FROM #t WHERE year IN ( SELECT year FROM #t )",
    "SELECT account FROM #t WHERE account ~ 'a'",
    "SELECT - month + 1 * 2 AS x FROM #t",
    "SELECT ( month + 1 ) * 2 / 3 % 4 AS x FROM #t",
    "SELECT meta [ 'k' ] FROM #t",
    "SELECT position . units . number",
    "SELECT coalesce ( month , 0 ) FROM #t",
    "SELECT length ( account ) , upper ( account ) FROM #t LIMIT 2",
    "SELECT date , account WHERE number > 1.5",
    "SELECT date FROM year = 2019 OPEN ON 2019-01-01 CLOSE ON 2019-03-01 CLEAR",
    "SELECT date FROM OPEN ON 2019-01-01 CLOSE",
    "SELECT date FROM CLOSE ON 2019-03-01",
    "SELECT date FROM CLEAR",
    "SELECT year FROM ( SELECT year , month FROM #t ) WHERE month > 1",
    "SELECT account , sum ( number ) GROUP BY account HAVING count ( * ) > 1 ORDER BY account",
    "SELECT year FROM #t ORDER BY year ASC , month DESC",
    "SELECT year FROM #t WHERE month > %s",
    "SELECT year FROM #t WHERE month > %(p)s",
    "SELECT 'x' , 1 , 1.5 , 2019-01-01 , TRUE , NULL",
    "SELECT year + 1 AS y FROM #t WHERE date > 2019-01-01 - 1",
    "SELECT today ( )",
    "SELECT year FROM #t WHERE account != 'a' AND month <= 2 AND month >= 1 AND month < 3",
    "SELECT year FROM #t WHERE account !~ 'a'",
    "SELECT year FROM #t WHERE year NOT IN ( 1 , 2 )",
    "SELECT year FROM #t WHERE year IS NOT NULL ;",
    "BALANCES",
    "BALANCES AT units FROM year = 2019 WHERE account ~ 'Assets'",
    "JOURNAL 'Assets' AT cost FROM year = 2019",
    "PRINT FROM year = 2019",
    "SELECT first ( account ) , last ( account ) , min ( month ) , max ( month ) FROM #t",
    "SELECT year , sum ( month ) FROM #t GROUP BY year ORDER BY sum ( month )",
]
# aggregates are not allowed in the FROM clause of ANY statement kind
MUST_REJECT = [
    "SELECT year FROM count(*) > 1",
    "SELECT year FROM year = 2019 AND max(month) = 2",
    "BALANCES FROM count(*) > 1",
    "BALANCES AT cost FROM sum(month) > 0 CLOSE ON 2019-03-01",
    "JOURNAL 'Assets' FROM count(*) > 1",
    "PRINT FROM count(*) > 1",
    "PRINT FROM year = 2019 AND max(month) = 2",
    "PRINT FROM first(year) = 2019 OPEN ON 2019-01-01 CLOSE ON 2019-03-01 CLEAR",
]
DOUBLE_EDIT_MAXLEN = 5


def ngram_texts(n):
    for prefix in PREFIXES:
        for k in range(0, n + 1):
            for toks in itertools.product(TOKENS, repeat=k):
                yield ' '.join(([prefix] if prefix else []) + list(toks))


def single_edits(toks, alphabet):
    for i in range(len(toks)):
        yield toks[:i] + toks[i + 1:]
    for i in range(len(toks)):
        for a in alphabet:
            if a != toks[i]:
                yield toks[:i] + [a] + toks[i + 1:]
    for i in range(len(toks) + 1):
        for a in alphabet:
            yield toks[:i] + [a] + toks[i:]


def edit_texts(tier):
    alphabet = EDIT_TOKENS_QUICK if tier == 'quick' else TOKENS
    for ci, text in enumerate(CORPUS):
        toks = text.split(' ')
        for e in single_edits(toks, alphabet):
            yield ' '.join(e)
        if tier != 'quick' and len(toks) <= DOUBLE_EDIT_MAXLEN:
            for e1 in single_edits(toks, EDIT_TOKENS_QUICK):
                for e2 in single_edits(e1, EDIT_TOKENS_QUICK):
                    yield ' '.join(e2)


# CPython refuses to convert integer texts of more than 4300 characters (leading zeros count): the literal's length is the
# boundary, not its value
BIG = {'30-digit': '9' * 30, '5000-digit': '1' + '0' * 4999, '4300-digit': '7' * 4300, '4301-digit': '7' * 4301,
       'zero-padded-6001': '0' * 6000 + '7', 'zero-padded-4301': '0' * 4300 + '1', 'zeros-5000': '0' * 5000}


def literal_texts():
    out = []
    for d in ('2020-13-45', '2021-02-29', '2019-00-10', '2019-01-00', '0000-01-01', '9999-12-31', '2019-1-1', '20190-01-01'):
        out += [f'SELECT {d}', f'SELECT year WHERE date > {d}', f'SELECT date FROM OPEN ON {d}', f'SELECT date FROM CLOSE ON {d}',
                f'SELECT date FROM OPEN ON 2019-01-01 CLOSE ON {d}', f'SELECT year WHERE date IN ({d}, 2019-01-01)', f'PRINT FROM CLOSE ON {d}']
    for n in BIG.values():
        out += [f'SELECT {n}', f'SELECT year LIMIT {n}', f'SELECT year FROM #t GROUP BY {n}', f'SELECT year FROM #t ORDER BY {n}',
                f'SELECT year, month FROM #t PIVOT BY 1, {n}', f'SELECT year, month FROM #t PIVOT BY {n}, 1',
                f'SELECT year, count(*) FROM #t GROUP BY 1 PIVOT BY {n}, 1', f'SELECT year WHERE year IN ({n}, 1)',
                f'SELECT year WHERE month < {n}', f'SELECT -{n}', f'SELECT {n}.5', f'SELECT 0.{n}', f'SELECT {n} + 1',
                f'SELECT year FROM #t GROUP BY 1, {n}', f'SELECT year FROM #t ORDER BY 1, {n} DESC', f'SELECT year AS x{n}',
                f'SELECT year LIMIT 0{n}']
    out += ['SELECT 1.', 'SELECT .5', 'SELECT 1.5.', 'SELECT .', 'SELECT 1..2', 'SELECT 1.e5', 'SELECT 1e5', 'SELECT 1.5.5', 'SELECT 01',
            'SELECT 1 .5', 'SELECT year LIMIT 1.', 'SELECT year LIMIT .5', 'SELECT year LIMIT -1', 'SELECT year ORDER BY 1.', 'SELECT year GROUP BY .5',
            'SELECT year, month FROM #t PIVOT BY 1., 2', 'SELECT year LIMIT 9223372036854775807', 'SELECT year LIMIT 9223372036854775808',
            'SELECT year LIMIT 2147483648']
    out += ['', ' ', '\n', '\t\n ', '\r\n', ';', ' ; ', ';;', '/* c */', '/**/', '; c', '; c\n', '/* c */ ;', '/* unclosed', '/* c */\n/* d */',
            'SELECT /* unclosed', 'SELECT year /* c */', 'SELECT year ; trailing comment', 'SELECT year ;\nSELECT month', '-- not a comment',
            "SELECT 'abc", 'SELECT "abc', "SELECT 'a''b'", "SELECT 'a\nb'", 'SELECT \x00', 'SELECT é', 'SELECT "é"', 'SELECT year\x0c',
            'SELECT\x0byear', 'SELECT year\r', 'SELECT year,\r\nnope', 'SELECT year,\n\n\n  nope\n', 'SELECT year FROM\n#nope', 'select YEAR from #T',
            'SELECT ' + 'x' * 5000, 'SELECT ' + ', '.join(['year'] * 300), 'SELECT year WHERE ' + ' AND '.join(['year > 0'] * 100),
            'SELECT ' + ' + '.join(['1'] * 150), 'SELECT ' + '-' * 40 + '1', 'SELECT ' + 'NOT ' * 40 + 'TRUE',
            'SELECT year %s', 'SELECT %s %s', 'SELECT %(p)s + %s', 'SELECT %()s', 'SELECT %(1)s', 'SELECT %', 'SELECT % s', 'SELECT %d',
            'SELECT DISTINCT * FROM #accounts', 'SELECT DISTINCT meta', 'SELECT account FROM #accounts WHERE account IN (SELECT account FROM CLEAR)',
            'SELECT #', 'SELECT year FROM #', 'SELECT year FROM ##t', 'SELECT year FROM #1', 'SELECT year FROM # t']
    for depth in (5, 10, 20, 40, 80, 200):
        out.append('SELECT ' + '(' * depth + '1' + ')' * depth)
        out.append('SELECT year WHERE year IN ' + '(SELECT year FROM ' * min(depth, 20) + '#t' + ')' * min(depth, 20))
        out.append('SELECT ' + 'abs(' * depth + '1.5' + ')' * depth)
        out.append('SELECT meta' + "['k']" * depth)
    seen, uniq = set(), []
    for t in out:
        if t not in seen:
            seen.add(t)
            uniq.append(t)
    return uniq


def check_text(conn, text, acc, kind, must_accept=False):
    case = {'part': 'c', 'kind': kind, 'text': text}
    acc.count('c_texts')
    acc.count(f'c_kind:{kind}')
    o = attempt(conn, text, None, auto_params=True)
    where = f'{text[:160]!r}' + ('...' if len(text) > 160 else '')
    if record_outcome(o, acc, text, case, where, prefix='c_'):
        return
    if o.status == 'accepted' and kind == 'must-reject':
        acc.violation('accept:aggregate-in-from', f'{text!r} has an aggregate in its FROM clause (not allowed for any statement kind) and is accepted', case)
        return
    if o.status == 'accepted':
        acc.add('c_accepted_statement_kinds', type(o.node).__name__)
        if kind != 'corpus':
            acc.sample({'accepted_text': text[:100]}, limit=3)
        # a text containing a date-shaped token (dddd-dd-dd, which the grammar reads as ONE date literal) that is not a
        # calendar date is one of the ill-formed inputs the property enumerates: it must be rejected, not re-read as
        # arithmetic
        if kind == 'literal':
            import datetime as _dt
            import re as _re
            for m in _re.finditer(r'(?<![\d.])(\d{4})-(\d{2})-(\d{2})(?![\d-])', text):
                try:
                    _dt.date(int(m.group(1)), int(m.group(2)), int(m.group(3)))
                except ValueError:
                    acc.violation('accept:invalid-calendar-date', f'{text!r} contains the invalid calendar date {m.group(0)} and is accepted (parsed as {type(o.node).__name__})', case)
                    break
    else:
        acc.count(f'c_rejected_at:{o.stage}')
        if must_accept:
            acc.violation(f'corpus:{impl_reject_fp(o.exc)[7:]}', f'valid corpus statement {text!r} is rejected: {type(o.exc).__name__}: {o.exc}', case)
