"""C15 -- PIVOT BY is a lossless reshaping of a two-key aggregate result.

Technique: bounded-exhaustive exploration (E-enum): ALL tables of <= L rows over a row alphabet
(r in 3 ints whose numeric and textual orders differ: 2, 10, 3) x (k in 3 strs) x (v in NULL/ints) [dense and sparse key combinations], x ALL layouts:
every permutation of the targets [r, k, agg1] and [r, k, agg1, agg2], PIVOT BY given by names or by
1-based positions, in either pivot order (r,k) / (k,r), plus ORDER BY clauses on the first / second pivot
column and on an aggregate (the pivoted rows must be ascending by the first column regardless).

Oracle (from the property text; the un-pivoted query result comes from the reference interpreter
vt.ref.select, not from beanquery):
  * one row per distinct value of the first pivot column, ascending;
  * leading column named `first/second`; then one block of the remaining output columns per distinct
    value of the second pivot column, ascending, named `value` (one remaining column) or
    `value/column` (several); datatypes = first column's, then the remaining columns' per block;
  * block (r, k) = remaining-column values of the unique un-pivoted row with first = r and second = k,
    NULLs if there is none;  un-pivoting the real result reproduces the un-pivoted result exactly;
  * by-name == by-position;
  * invalid PIVOT BY references are rejected at compile time (same column twice, position out of
    range, position of a hidden target, unknown name, second column not grouped, non-aggregate query).
Scope: NULL pivot keys are excluded (their ordering is unspecified).
"""
import itertools

import beanquery
from beanquery.parser import ast

from ..harness import HTable, connect, select, F, C, col, crash_fingerprint, typed
from ..par import Acc, run_shards, mine
from ..ref import select as refselect
from ..runner import Result, jsonable, unjson

LEVEL = 'model_checking'
A = ast
COLS = [('r', int), ('k', str), ('v', int)]


def alphabet(seed):
    vs = [(None, 1, 5), (None, 2, 7), (None, -3, 1)][seed % 3]
    # 2 < 3 < 10 numerically but not as text; 0 is falsy and sorts after -1
    return list(itertools.product([2, 10, 3, 0, -1], ['x', 'y', 'z'], vs))


def alphabet_small(seed):
    vs = [(None, 1), (None, 2), (None, -3)][seed % 3]
    return list(itertools.product([2, 10], ['x', 'y', 'z'], vs))


def tables(L, alpha):
    for n in range(0, L + 1):
        for rows in itertools.product(alpha, repeat=n):
            yield list(rows)


def layouts():
    out = []
    rems = [('n', F('count', A.Asterisk()), int), ('s', F('sum', col('v')), int), ('m', F('max', col('v')), int)]
    for rem in ([rems[0]], [rems[1]], [rems[0], rems[1]], [rems[1], rems[2]]):
        base = [('r', col('r'), int), ('k', col('k'), str)] + rem
        for perm in itertools.permutations(base):
            names = [p[0] for p in perm]
            for first, second in (('r', 'k'), ('k', 'r')):
                for byname in (True, False):
                    out.append((perm, names, first, second, byname, None))
        # the pivoted rows are ascending by the first pivot column whatever ORDER BY the query carries
        perm = tuple(base)
        names = [p[0] for p in perm]
        for first, second in (('r', 'k'), ('k', 'r')):
            for order in ('first-desc', 'second-then-first', 'agg-desc-then-first-desc'):
                out.append((perm, names, first, second, True, order))
            # LIMIT cuts the ORDERED un-pivoted rows before they are pivoted
            for order in ('agg-desc-then-first-desc|limit1', 'agg-desc-then-first-desc|limit2', 'second-then-first|limit2', 'first-desc|limit3', '|limit2'):
                out.append((perm, names, first, second, True, order))
            # no GROUP BY clause: an aggregate query is grouped by its non-aggregate targets, here exactly the two pivot columns
            out.append((perm, names, first, second, True, '|implicit'))
            out.append((perm, names, first, second, False, '|implicit'))
    return out


def build(perm, names, first, second, byname, order=None, pivot=True):
    targets = [(e, nm) for nm, e, _ in perm]
    pv = [col(first), col(second)] if byname else [names.index(first) + 1, names.index(second) + 1]
    gb = A.GroupBy([col('r'), col('k')], None)
    ob = None
    limit = None
    order, _, extra = (order or '').partition('|')
    if extra.startswith('limit'):
        limit = int(extra[5:])
    elif extra == 'implicit':
        gb = None
    if order == 'first-desc':
        ob = [A.OrderBy(col(first), A.Ordering.DESC)]
    elif order == 'second-then-first':
        ob = [A.OrderBy(col(second), A.Ordering.ASC), A.OrderBy(col(first), A.Ordering.ASC)]
    elif order == 'agg-desc-then-first-desc':
        ob = [A.OrderBy(col(names[-1]), A.Ordering.DESC), A.OrderBy(col(first), A.Ordering.DESC)]
    return select(targets, from_='t', group_by=gb, order_by=ob, limit=limit, pivot_by=A.PivotBy(pv) if pivot else None)


def expected(perm, names, first, second, un):
    i1, i2 = names.index(first), names.index(second)
    others = [i for i in range(len(names)) if i not in (i1, i2)]
    keys = sorted({r[i2] for r in un})
    firsts = sorted({r[i1] for r in un})
    if len(others) == 1:
        expnames = [f'{first}/{second}'] + [f'{k}' for k in keys]
    else:
        expnames = [f'{first}/{second}'] + [f'{k}/{names[o]}' for k in keys for o in others]
    exptypes = [perm[i1][2]] + [perm[o][2] for k in keys for o in others]
    exprows = []
    for f in firsts:
        row = [f]
        for k in keys:
            m = [r for r in un if r[i1] == f and r[i2] == k]
            if len(m) > 1:
                raise AssertionError('un-pivoted rows are not unique per key pair')
            row += [m[0][o] for o in others] if m else [None] * len(others)
        exprows.append(tuple(row))
    return expnames, exptypes, exprows, keys, others, (i1, i2)


def unpivot(rows, keys, others, nfirst_second, ncols):
    """Inverse reshaping of a pivoted result -> set of (first, second, remaining...) tuples for the
    cells that are not entirely NULL-filled placeholders."""
    out = []
    for row in rows:
        for j, k in enumerate(keys):
            block = row[1 + j * len(others): 1 + (j + 1) * len(others)]
            out.append((row[0], k, tuple(block)))
    return out


def check_one(conn, rows, lay, acc, li):
    perm, names, first, second, byname, order = lay
    q0 = build(*lay, pivot=False)
    q1 = build(*lay)
    _, un, _ = refselect.execute(q0, [c for c, _ in COLS], rows, dict(COLS))
    expnames, exptypes, exprows, keys, others, (i1, i2) = expected(perm, names, first, second, un)
    acc.count('executions')
    case = {'kind': 'layout', 'layout': li, 'rows': jsonable(rows)}
    try:
        cur = conn.execute(q1)
        got = cur.fetchall()
        desc = cur.description
    except Exception as e:
        acc.violation(f'crash:{crash_fingerprint(e)}', f'{show(q1)} on {rows!r} raised {type(e).__name__}: {e}', case)
        return
    tag = f'{"name" if byname else "pos"}|{first}{second}|rem={len(others)}' + (f'|order-by:{order}' if order else '')
    gnames = [d.name for d in desc]
    gtypes = [d.datatype for d in desc]
    if gnames != expnames:
        acc.violation(f'pivot-names:{tag}', f'{show(q1)} on {rows!r}: column names {gnames!r}, expected {expnames!r}', case)
        return
    if gtypes != exptypes:
        acc.violation(f'pivot-types:{tag}', f'{show(q1)} on {rows!r}: datatypes {gtypes!r}, expected {exptypes!r}', case)
        return
    if [tuple(map(typed, r)) for r in got] != [tuple(map(typed, r)) for r in exprows]:
        acc.violation(f'pivot-rows:{tag}', f'{show(q1)} on {rows!r}: got {got!r}, expected {exprows!r}', case)
        return
    # round trip: un-pivoting the REAL result gives back the un-pivoted reference result
    cells = unpivot(got, keys, others, (i1, i2), len(names))
    back = set()
    for f, k, block in cells:
        m = [r for r in un if r[i1] == f and r[i2] == k]
        if m:
            back.add((f, k, block))
        elif any(v is not None for v in block):
            acc.violation(f'pivot-invented:{tag}', f'{show(q1)} on {rows!r}: block ({f},{k}) = {block!r} but no un-pivoted row has these keys', case)
            return
    want = {(r[i1], r[i2], tuple(r[o] for o in others)) for r in un}
    if back != want:
        acc.violation(f'pivot-roundtrip:{tag}', f'{show(q1)} on {rows!r}: un-pivoting gives {sorted(back, key=repr)!r}, un-pivoted query gives {sorted(want, key=repr)!r}', case)
        return
    # the same statement object executed again (small tables only: the cost is a second execution): compiling a
    # PIVOT BY statement must not change it
    if len(rows) <= 2:
        acc.count('re_executions')
        try:
            cur = conn.execute(q1)
            again = (cur.fetchall(), [(d.name, d.datatype) for d in cur.description])
        except Exception as e:
            again = f'{type(e).__name__}: {e}'
        if again != (got, [(d.name, d.datatype) for d in desc]):
            acc.violation(f'pivot-reexecution:{tag}', f'{show(q1)} on {rows!r}: executing the same statement object a second time gives {again!r}, the first time {got!r}', case)
            return
    acc.count('cells_compared', len(got) * (1 + len(keys) * len(others)))
    if len(un) < len(keys) * len({r[i1] for r in un}):
        acc.count('sparse_results')
    if len(keys) >= 2 and len(got) >= 2:
        acc.count('results_2x2_or_larger')
    acc.add('shapes', (len(got), len(keys), len(others)))


def show(node):
    try:
        from ..unparse import unparse
        return unparse(node)
    except Exception:
        return repr(node)


INVALID = [
    ('same-column', lambda: select([(col('r'), None), (col('k'), None), (F('sum', col('v')), 's')], from_='t', group_by=A.GroupBy([col('r'), col('k')], None), pivot_by=A.PivotBy([1, 1]))),
    ('same-column-name', lambda: select([(col('r'), None), (col('k'), None), (F('sum', col('v')), 's')], from_='t', group_by=A.GroupBy([col('r'), col('k')], None), pivot_by=A.PivotBy([col('r'), col('r')]))),
    ('position-0', lambda: select([(col('r'), None), (col('k'), None), (F('sum', col('v')), 's')], from_='t', group_by=A.GroupBy([col('r'), col('k')], None), pivot_by=A.PivotBy([0, 1]))),
    ('position-too-large', lambda: select([(col('r'), None), (col('k'), None), (F('sum', col('v')), 's')], from_='t', group_by=A.GroupBy([col('r'), col('k')], None), pivot_by=A.PivotBy([1, 4]))),
    ('position-of-hidden-target', lambda: select([(col('r'), None), (F('sum', col('v')), 's')], from_='t', group_by=A.GroupBy([col('r'), col('k')], None), pivot_by=A.PivotBy([1, 3]))),
    ('unknown-name', lambda: select([(col('r'), None), (col('k'), None), (F('sum', col('v')), 's')], from_='t', group_by=A.GroupBy([col('r'), col('k')], None), pivot_by=A.PivotBy([col('r'), col('zz')]))),
    ('second-not-grouped', lambda: select([(col('r'), None), (col('k'), None), (F('sum', col('v')), 's')], from_='t', group_by=A.GroupBy([col('r'), col('k')], None), pivot_by=A.PivotBy([col('r'), col('s')]))),
    ('non-aggregate-query', lambda: select([(col('r'), None), (col('k'), None), (col('v'), None)], from_='t', pivot_by=A.PivotBy([1, 2]))),
]


def nested_statements():
    r, k, v = col('r'), col('k'), col('v')
    gb = A.GroupBy([col('r'), col('k')], None)
    targets = [(r, None), (k, None), (F('sum', v), 's'), (F('count', A.Asterisk()), 'n')]
    inner = select([(r, None), (k, None), (v, None)], from_='t')
    member = A.In(r, select([(r, None)], from_='t'))
    out = []
    for pv in ([col('r'), col('k')], [2, 1]):
        base = select(targets, from_='t', group_by=gb, pivot_by=A.PivotBy(list(pv)))
        out.append((base, [
            ('from-subquery', select(targets, from_=inner, group_by=gb, pivot_by=A.PivotBy(list(pv)))),
            ('where-in-subquery', select(targets, from_='t', where=member, group_by=gb, pivot_by=A.PivotBy(list(pv)))),
            ('both', select(targets, from_=inner, where=member, group_by=gb, pivot_by=A.PivotBy(list(pv)))),
            ('from-nested-subquery', select(targets, from_=select(A.Asterisk(), from_=inner), group_by=gb, pivot_by=A.PivotBy(list(pv)))),
        ]))
    return out


def check_nested(acc, only=None):
    """A top-level PIVOT BY query may read a sub-query (FROM) or use one (IN): same pivoted result as over the base table."""
    for rows in ([], [(1, 'x', 1)], [(1, 'x', 1), (2, 'y', 5), (2, 'x', None), (1, 'x', 4)], [(10, 'y', 2), (2, 'y', 2), (0, 'x', 1), (-1, 'x', 1)]):
        table = HTable(COLS, rows)
        conn = connect(t=table, postings=table)
        for base, variants in nested_statements():
            try:
                cur = conn.execute(base)
                want = ([(d.name, d.datatype) for d in cur.description], cur.fetchall())
            except Exception as e:
                acc.violation(f'crash:{crash_fingerprint(e)}', f'{show(base)} on {rows!r} raised {type(e).__name__}: {e}', {'kind': 'nested', 'name': 'base'})
                continue
            for name, stmt in variants:
                if only is not None and only != name:
                    continue
                acc.count('executions')
                acc.count('pivot_over_subquery_statements')
                try:
                    cur = conn.execute(stmt)
                    got = ([(d.name, d.datatype) for d in cur.description], cur.fetchall())
                except Exception as e:
                    got = f'{type(e).__name__}: {e}'
                if got != want:
                    acc.violation(f'pivot-with-subquery:{name}', f'{show(stmt)} on {rows!r}: {got!r}; the same query over the base table gives {want!r}', {'kind': 'nested', 'name': name})


def check_invalid(acc, only=None):
    rows = [(1, 'x', 1), (2, 'y', 5)]
    table = HTable(COLS, rows)
    conn = connect(t=table, postings=table)
    for name, mk in INVALID:
        if only is not None and only != name:
            continue
        stmt = mk()
        acc.count('invalid_references')
        try:
            conn.execute(stmt).fetchall()
            acc.violation(f'invalid-accepted:{name}', f'{show(stmt)} was accepted; an invalid PIVOT BY reference must be rejected at compile time', {'kind': 'invalid', 'name': name})
        except beanquery.CompilationError:
            acc.count('invalid_rejected')
        except Exception as e:
            acc.violation(f'invalid-crash:{name}', f'{show(stmt)} raised {type(e).__name__}: {e} instead of a compile-time rejection', {'kind': 'invalid', 'name': name})


def shard_fn(shard, nshards, L, seed, small):
    acc = Acc()
    lays = layouts()
    alpha = alphabet_small(seed) if small else alphabet(seed)
    for idx, rows in enumerate(tables(L, alpha)):
        if not mine(idx, shard, nshards):
            continue
        table = HTable(COLS, rows)
        conn = connect(t=table, postings=table)
        acc.count('tables')
        for li, lay in enumerate(lays):
            check_one(conn, rows, lay, acc, li)
        if idx % 2503 == 11:
            acc.sample({'table': jsonable(rows), 'statement': show(build(*lays[(idx * 13) % len(lays)]))})
    acc.add('layouts', len(lays))
    return acc


def replay(c):
    acc = Acc()
    if c['kind'] == 'invalid':
        check_invalid(acc, only=c['name'])
    elif c['kind'] == 'nested':
        check_nested(acc, only=None if c['name'] == 'base' else c['name'])
    else:
        rows = [tuple(r) for r in unjson(c['rows'])]
        table = HTable(COLS, rows)
        conn = connect(t=table, postings=table)
        check_one(conn, rows, layouts()[c['layout']], acc, c['layout'])
    return acc.violations


def run(ctx):
    # quick: all tables <= 3 rows over the 12-letter alphabet (r in 2, k in 3, v in 2) and <= 2 rows over the 45-letter one (r in {2, 10, 3, 0, -1})
    plans = ctx.pick([(3, True), (2, False)], [(4, True), (3, False)])
    acc = Acc()
    for L, small in plans:
        acc.merge(run_shards(shard_fn, ctx.jobs, L, ctx.seed, small))
    check_invalid(acc)
    check_nested(acc)
    n = acc.n
    cov = {
        'states': n['executions'], 'transitions': n['cells_compared'], 'traces_validated_against_impl': n['executions'],
        'evaluations': n['executions'], 'distinct_nontrivial': len(acc.sets['shapes']),
        'rule': 'a case = one (layout, table) pivoted execution compared with the reference reshaping of the reference un-pivoted result and un-pivoted back; '
                'distinct_nontrivial = distinct (rows, second-key values, remaining columns) result shapes',
        'exhaustive': True,
        'bound': [f'ALL tables of <= {L} rows over the {"12" if small else "45"}-letter row alphabet x ALL {sorted(acc.sets["layouts"])} layouts' for L, small in plans],
        'tables': n['tables'], 'sparse_results': n['sparse_results'], 'results_2x2_or_larger': n['results_2x2_or_larger'],
        'invalid_references_tried': n['invalid_references'], 'invalid_references_rejected': n['invalid_rejected'],
        'samples': acc.samples,
    }
    return Result(cov, acc.violations, assumptions=['NULL pivot keys excluded (ordering unspecified)', 'un-pivoted result from vt/ref/select.py'])
