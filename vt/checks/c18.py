"""C18 -- Scalar function library obeys calendar, account-name, string and numeric laws.

Technique: bounded-EXHAUSTIVE enumeration (E-enum).  Argument values are placed in harness tables
(``vt.harness.HTable``) and every function is evaluated THROUGH real statements
(``SELECT d, date_trunc('month', d), ... FROM t`` built as ASTs, run by ``Connection.execute``), so that one
statement evaluates thousands of cases; every result cell is compared with a small reference
(``vt.ref.dates`` for the calendar -- stdlib ``calendar`` + date ordinals, never dateutil --, explicit
slice / regex / decimal / fraction definitions for the rest).  Nothing is sampled.

Sections (each is a function ``sec_<name>(acc, rows, params)`` that is also the replay entry point):

  trunc      every date 1900-01-01..2100-12-31 x 7 units: date_trunc = first day of the unit (computed
             independently), <= d, idempotent, monotone in d; date_part of the truncated date and of the
             day before it agree with the unit ("parts agree with trunc").
  parts      every date x 13 date_part fields, year/month/day/quarter/weekday/yearmonth.
  addsub     boundary dates (1st, 2nd, 28th, last-1, last of every month) x n in -400..400:
             date_add, date +/- int, int + date, date_diff, date - date, mutually inverse.
  pairs      boundary dates x boundary dates: date_diff / date - date / date_add(y, date_diff(x, y)) = x.
  bin_day    every date x day strides {1,2,3,7,30} x 3 origins, both overloads (str, interval).
  bin_month  dates within +-5 (quick) / +-30 (thorough) years of each of 3 origins (day <= 28) x month
             strides {1,2,3,6,12} and year strides {1,2}; closed-form oracle:
             start <= d < start + stride, start = origin + k*stride.
  interval   date + interval, interval + date, date - interval, date + (interval + interval).
  accounts   all account names of 1..5 components over the five root types (default and renamed root
             names): root(a, n), root(a), parent, leaf, account_sortkey (+ ORDER BY), possign.
  strings    all strings of length <= 3 (thorough 4) over a 4- (5-) letter alphabet: upper, lower, length,
             substr, splitcomp, maxwidth, grep, grepn, subst, joinstr, findfirst.
  numeric    decimals m*10^e: abs, neg, round, safediv; round on ints.
  casts      bool/int/decimal/str/date over typed and object columns and as constants; date(y, m, d).

Weakest readings (the property text is silent; see also ``ASSUMPTIONS``):

  * century/millennium count from year 1 (PostgreSQL), decade = year // 10, weeks are ISO weeks.
  * weekday(d) is the English 3-letter abbreviation (the process runs in the C locale).
  * root(a, n) only for n >= 1; a one-component name has no parent: parent(a) is NULL or '' (which of the two is not
    stated), leaf(a) = a; for every name a = parent(a) + ':' + leaf(a) when parent(a) is non-empty, a = leaf(a) otherwise.
    Checked over columns, literals and nested calls (parent(root(a, 1)), parent(parent(a)), leaf(parent(a)) ...).
  * account_sortkey: the order of the *types* is beancount's (assets, liabilities, equity, income,
    expenses), read from the options of the ledger.
  * possign / neg / abs compare numerically (0 == -0; exponent not compared).
  * round: "equal decimal arithmetic" = the multiple of 10^-digits nearest to x and, on an exact tie, the neighbour
    whose last kept digit is even (the rounding of decimal arithmetic's default context, of Decimal.__round__ and
    of int.__round__; the reference is written with fractions and cross-checked against CPython's round() on the same
    operand, a disagreement being a harness error).  The exponent of the result is not compared.  Exact ties after an
    even and after an odd kept digit, of both signs, for digits -1..2 are in the domain, over columns and as
    constants (folding path), also through round(neg(c)).  safediv(x, 0) = 0; otherwise the exact quotient when it
    has <= 28 significant digits, else within one unit of the 28th digit.
  * maxwidth(s, n) only for n >= 5 (the placeholder "[...]" must fit): len(result) <= n; when the
    whitespace-normalised text fits it is returned (when s itself fits, s is accepted too); otherwise the
    result is "[...]" or <leading whole words> + " [...]".
  * splitcomp: only in-range indexes; negative in-range indexes count from the end.
  * grep/grepn/subst: Python ``re`` semantics without flags (case-sensitive); grepn only for existing groups.
  * findfirst: NULL only if no member matches at its start; otherwise some member of the set in which
    the pattern is found (neither anchoring nor which member is "first" is stated).
  * joinstr: the items are compared as a multiset.
  * date + (i1 + i2): any of (combined months then days), (i1 then i2), (i2 then i1) is accepted.
  * casts: clearly convertible inputs must convert, clearly inconvertible ones (NaN, Infinity,
    non-numeric strings, impossible dates, values of unrelated types) must give NULL, debatable inputs
    (' 12 ', '1_0', '1e3', '2020-2-9', non-integral decimals to int, 'NaN' to decimal ...) may give NULL or
    the plausible value(s); str() of non-scalars, bool() of strings/dates/collections: any value of the
    target type.  A static rejection (CompilationError for an overload that does not exist) is not a cast
    evaluation; only the overloads of the pinned tree are required to exist.
  * zero/negative strides, out-of-range indexes, maxwidth < 5, today(), empty split delimiter: not generated.
"""
import datetime
import decimal
import fractions
import itertools
import json
import re

import beanquery
from beancount import loader
from beancount.core import amount as bc_amount
from beancount.core import inventory as bc_inventory
from beancount.core import position as bc_position

from ..harness import HTable, select, F, C, col, A, crash_fingerprint
from ..par import Acc, run_shards
from ..ref import dates as R
from ..runner import Result, jsonable, unjson

LEVEL = 'model_checking'

D = decimal.Decimal
DATE = datetime.date
LO, HI = DATE(1900, 1, 1), DATE(2100, 12, 31)

ASSUMPTIONS = [
    'century/millennium counted from year 1 (PostgreSQL convention), decade = year // 10, ISO weeks (Monday first)',
    'weekday(d) compared with the English abbreviations (process locale is C)',
    "root(a, n) generated for n >= 1 only; parent() of a one-component name (and parent/leaf of the empty name reached by nesting) is NULL or '', which of the two is not stated",
    'account_sortkey type order = beancount account-types order taken from the ledger options (trusted)',
    'possign/neg/abs/safediv compared numerically (sign of zero and exponent are not compared)',
    'round: nearest multiple of 10^-digits, exact ties to the even neighbour (decimal arithmetic default rounding = Decimal.__round__ = int.__round__), exponent not compared; safediv(x, 0) = 0, quotient exact or within 1 ulp of 28 digits',
    'maxwidth only for widths >= 5: len <= n, identity (up to whitespace normalisation) when it fits, otherwise whole leading words + " [...]"',
    'splitcomp/grepn only with in-range indexes (negative splitcomp indexes count from the end); regex functions follow Python re without flags',
    'findfirst: NULL only if no member matches at its start, otherwise any member in which the pattern is found',
    'joinstr compared as a multiset of items (set iteration order is unspecified)',
    'date + (i1 + i2) accepts combined or sequential (either order) calendar arithmetic',
    'casts: debatable inputs may yield NULL or the plausible value; static rejection of a non-existing overload is not an evaluation; overloads of the pinned tree are a lower bound',
    'date_bin month/year strides explored for dates within +-5 (quick) / +-30 (thorough) years of the origin, clipped to 1900..2100, because the implementation walks one stride per step',
    'not generated: zero/negative strides, out-of-range indexes, maxwidth < 5, today(), empty delimiters, NULL arguments (C01 owns NULL strictness)',
    'trusted: CPython datetime ordinals, calendar, re, decimal, fractions; beancount loader/options/Amount/Position/Inventory',
]


# =====================================================================================================
# Infrastructure: run expressions over a table, locate crashing rows, compare cells
# =====================================================================================================

class Raised:
    __slots__ = ('fp', 'text', 'cls')

    def __init__(self, exc):
        self.fp = crash_fingerprint(exc)
        self.cls = type(exc).__name__
        self.text = f'{type(exc).__name__}: {exc}'

    def __repr__(self):
        return f'<raised {self.text}>'


class Skipped:
    def __repr__(self):
        return '<not evaluated: crash cap reached>'


SKIPPED = Skipped()
CRASH_CAP = 12          # crashing rows located per expression and task; the rest is counted, not hidden


def plain_conn():
    return beanquery.Connection()


_LEDGERS = {}

LEDGER_SRC = {
    'default': '2000-01-01 open Assets:A\n',
    'renamed': ('option "name_assets" "Aktiva"\noption "name_liabilities" "Passiva"\noption "name_equity" "Kapital"\n'
                'option "name_income" "Ertrag"\noption "name_expenses" "Aufwand"\n2000-01-01 open Aktiva:A\n'),
}
ROOTS = {
    'default': ('Assets', 'Liabilities', 'Equity', 'Income', 'Expenses'),
    'renamed': ('Aktiva', 'Passiva', 'Kapital', 'Ertrag', 'Aufwand'),
}


def ledger_conn(config):
    if config not in _LEDGERS:
        entries, errors, options = loader.load_string(LEDGER_SRC[config])
        assert not errors, errors
        _LEDGERS[config] = (entries, errors, options)
    entries, errors, options = _LEDGERS[config]
    return beanquery.connect('beancount:', entries=entries, errors=list(errors), options=options)


def _exec(factory, cols, rows, exprs, order_by=None):
    conn = factory()
    conn.tables['t'] = HTable(cols, rows, name='t')
    targets = [(e, 'c%d' % i) for i, e in enumerate(exprs)]
    out = conn.execute(select(targets, from_='t', order_by=order_by)).fetchall()
    if len(out) != len(rows):
        raise AssertionError(f'harness: {len(rows)} rows in, {len(out)} rows out')
    return out


def _locate(factory, cols, rows, expr, budget):
    """Cells of one expression; bisects to the rows that raise."""
    try:
        return [r[0] for r in _exec(factory, cols, rows, [expr])]
    except AssertionError:
        raise
    except Exception as exc:
        if len(rows) <= 1:
            budget[0] -= 1
            return [Raised(exc)] * len(rows)
        if budget[0] <= 0:
            return [SKIPPED] * len(rows)
        mid = len(rows) // 2
        return _locate(factory, cols, rows[:mid], expr, budget) + _locate(factory, cols, rows[mid:], expr, budget)


def evaluate(acc, factory, cols, rows, exprs):
    """-> list (per row) of lists (per expression) of cells; a cell may be Raised / SKIPPED."""
    acc.count('queries')
    try:
        return [list(r) for r in _exec(factory, cols, rows, exprs)]
    except AssertionError:
        raise
    except Exception:
        pass
    out = [[None] * len(exprs) for _ in rows]
    for j, e in enumerate(exprs):
        acc.count('queries')
        try:
            _exec(factory, cols, [], [e])
            static = None
        except Exception as exc:       # raised without any row: compile time
            static = Raised(exc)
        cells = [static] * len(rows) if static is not None else _locate(factory, cols, rows, e, [CRASH_CAP])
        for i, c in enumerate(cells):
            out[i][j] = c
    return out


def lit(v):
    try:
        return _lit(v)
    except Exception:
        return repr(v)


def _lit(v):
    if v is None:
        return 'NULL'
    if v is True:
        return 'TRUE'
    if v is False:
        return 'FALSE'
    if isinstance(v, str):
        return "'" + v.replace("'", "''") + "'"
    if isinstance(v, D):
        return str(v) if v.is_finite() else f"decimal('{v}')"
    if isinstance(v, DATE):
        return v.isoformat()
    if isinstance(v, (set, frozenset)):
        return '{' + ', '.join(_lit(i) for i in sorted(v)) + '}'
    return repr(v)


def show(e):
    if isinstance(e, A.Constant):
        return lit(e.value)
    if isinstance(e, A.Column):
        return e.name
    if isinstance(e, A.Function):
        return f"{e.fname}({', '.join(show(o) for o in e.operands)})"
    if isinstance(e, A.Add):
        return f'({show(e.left)} + {show(e.right)})'
    if isinstance(e, A.Sub):
        return f'({show(e.left)} - {show(e.right)})'
    if isinstance(e, A.Neg):
        return f'-{show(e.operand)}'
    return repr(e)


def eq(a, b):
    """== that treats an incomparable pair (signalling NaN) as different instead of raising."""
    try:
        return bool(a == b)
    except Exception:          # signalling NaN, or a result of a foreign type whose == misbehaves
        return False


def same(got, exp):
    """type-exact equality (1 / TRUE / Decimal(1) are different results)."""
    return type(got) is type(exp) and eq(got, exp)


class Pred:
    """Expectation that is not a single value: ``test(got)`` -> None if fine, else text of what was expected.
    A result of a foreign Python type (a list where a string or NULL is due, ...) on which the expectation itself
    chokes is a wrong result of the implementation -- a violation, never a harness error."""
    __slots__ = ('_test',)

    def __init__(self, test):
        self._test = test

    def test(self, got):
        try:
            return self._test(got)
        except Exception as exc:
            return f'a value of the announced type or NULL (checking the result failed with {type(exc).__name__}: {exc})'


class Spec:
    """One result column: expression, fingerprint (locus of the defect), expectation row -> value | Pred."""
    __slots__ = ('expr', 'fp', 'expect', 'text')

    def __init__(self, expr, fp, expect):
        self.expr = expr
        self.fp = fp
        self.expect = expect
        self.text = show(expr)


def rowkey(row):
    """identity of an argument row by representation (Decimal('1.0') and Decimal('1') are different arguments)."""
    return tuple((str(v), 'D') if v.__class__ is D else v for v in row)


def mkcase(section, params, rows):
    return {'section': section, 'params': jsonable(params), 'rows': jsonable([list(r) for r in rows])}


def check_cell(acc, section, params, names, row, sp, got, exp, caserows=None):
    """Compare one cell.  Returns True iff the cell is as expected."""
    acc.count('cells')
    if got.__class__ is Raised:
        acc.count('cells_raised')
        acc.violation(got.fp, f'{sp.text} with {dict(zip(names, map(lit, row)))} raised {got.text}; expected {describe(exp)}',
                      mkcase(section, params, caserows or [row]))
        return False
    if got is SKIPPED:
        acc.count('cells_unevaluated_after_crash_cap')
        return False
    acc.count('law_checks')
    if exp.__class__ is Pred:
        err = exp.test(got)
        if err is None:
            return True
        acc.violation(sp.fp, f'{sp.text} with {dict(zip(names, map(lit, row)))} = {lit(got)} ({type(got).__name__}); expected {err}',
                      mkcase(section, params, caserows or [row]))
        return False
    if type(got) is type(exp) and eq(got, exp):
        return True
    acc.violation(sp.fp, f'{sp.text} with {dict(zip(names, map(lit, row)))} = {lit(got)} ({type(got).__name__}); '
                         f'expected {lit(exp)} ({type(exp).__name__})', mkcase(section, params, caserows or [row]))
    return False


def describe(exp):
    return 'a value or NULL, never an error' if exp.__class__ is Pred else lit(exp)


def law(acc, ok, fp, what, section, params, rows):
    acc.count('law_checks')
    if not ok:
        acc.violation(fp, what, mkcase(section, params, rows))
    return ok


def run_specs(acc, section, params, factory, cols, rows, specs, outcomes=True):
    """Generic driver: evaluate all specs over the table and compare every cell.  Returns the cell matrix."""
    names = [n for n, _ in cols]
    if len(set(map(rowkey, rows))) != len(rows):
        raise AssertionError(f'harness: duplicate argument rows in section {section}')
    acc.count('argument_rows', len(rows))
    res = evaluate(acc, factory, cols, rows, [sp.expr for sp in specs])
    for row, cells in zip(rows, res):
        for sp, got in zip(specs, cells):
            check_cell(acc, section, params, names, row, sp, got, sp.expect(row))
            if got is None:
                acc.count('null_results')
            elif got.__class__ is not Raised and got is not SKIPPED:
                if not (type(got) is type(row[0]) and eq(got, row[0])):
                    acc.count('nontrivial_cells')
                if outcomes:
                    note_outcome(acc, sp.fp, got)
    return res


OUTCOME_CAP = 400


def note_outcome(acc, key, got):
    s = acc.sets['out:' + key]
    if len(s) < OUTCOME_CAP:
        try:
            s.add(got if isinstance(got, (str, int, DATE)) else repr(got))
        except TypeError:
            s.add(repr(got))


def daterange(lo, hi):
    return [DATE.fromordinal(o) for o in range(lo.toordinal(), hi.toordinal() + 1)]


# =====================================================================================================
# Date sections
# =====================================================================================================

DCOL = [('d', DATE)]


def _as_dates(rows):
    return [tuple(r) for r in rows]


def sec_trunc(acc, rows, params):
    """rows: (d,) ascending and contiguous where monotonicity is to be checked."""
    rows = _as_dates(rows)
    d = col('d')
    specs, idx = [], {}
    for u in R.TRUNC_UNITS:
        t = F('date_trunc', C(u), d)
        idx[u] = len(specs)
        specs.append(Spec(t, f'date_trunc:{u}', lambda r, u=u: R.first_of_unit(u, r[0])))
        specs.append(Spec(F('date_trunc', C(u), t), f'date_trunc:{u}', lambda r, u=u: R.first_of_unit(u, r[0])))
        # parts agree with trunc: the first day of the unit has the same part, the day before it another one
        specs.append(Spec(F('date_part', C(u), t), f'date_part:{u}', lambda r, u=u: R.part(u, R.first_of_unit(u, r[0]))))
        specs.append(Spec(F('date_part', C(u), A.Sub(t, C(1))), f'date_part:{u}',
                          lambda r, u=u: R.part(u, R.add_days(R.first_of_unit(u, r[0]), -1))))
        specs.append(Spec(F('date_part', C(u), d), f'date_part:{u}', lambda r, u=u: R.part(u, r[0])))
    names = ['d']
    if len(set(rows)) != len(rows):
        raise AssertionError('harness: duplicate dates')
    lead = bool(params.get('lead'))      # the first row is only the predecessor for the monotonicity law
    p1, p2 = {'lead': False}, {'lead': True}     # parameters recorded with one-row / (predecessor, row) cases
    acc.count('argument_rows', len(rows) - lead)
    res = evaluate(acc, plain_conn, DCOL, rows, [sp.expr for sp in specs])
    prev_row = prev_cells = None
    for row, cells in zip(rows, res):
        x = row[0]
        if lead and prev_row is None:
            prev_row, prev_cells = row, cells
            continue
        for u in R.TRUNC_UNITS:
            k = idx[u]
            t, tt, p_first, p_before, p_d = cells[k:k + 5]
            first = R.first_of_unit(u, x)
            ok_t = check_cell(acc, 'trunc', p1, names, row, specs[k], t, first)
            if t.__class__ is DATE:
                note_outcome(acc, f'date_trunc:{u}', t)
                if t != x:
                    acc.count('nontrivial_cells')
                else:
                    acc.count('trunc_on_unit_start')
                fp = f'date_trunc:{u}'
                law(acc, t <= x, fp, f"date_trunc('{u}', {x}) = {t} is after the date", 'trunc', p1, [row])
                if tt.__class__ is DATE:
                    acc.count('cells')
                    law(acc, tt == t, fp, f"date_trunc('{u}', date_trunc('{u}', {x})) = {tt} but date_trunc('{u}', {x}) = {t}: not idempotent",
                        'trunc', p1, [row])
                else:
                    check_cell(acc, 'trunc', p1, names, row, specs[k + 1], tt, first)
                if prev_cells is not None and prev_cells[k].__class__ is DATE and R.diff_days(x, prev_row[0]) == 1:
                    pt = prev_cells[k]
                    law(acc, pt <= t, fp, f"date_trunc('{u}', {prev_row[0]}) = {pt} > date_trunc('{u}', {x}) = {t}: not monotone",
                        'trunc', p2, [prev_row, row])
                    # consecutive days: either the same unit or d starts a new one
                    law(acc, t == pt or t == x, fp,
                        f"date_trunc('{u}', .) jumps from {pt} (for {prev_row[0]}) to {t} (for {x}) although {x} does not start a unit",
                        'trunc', p2, [prev_row, row])
            ok_p = check_cell(acc, 'trunc', p1, names, row, specs[k + 4], p_d, R.part(u, x))
            if ok_t and ok_p:
                # only then is a disagreement attributable to date_part on the derived dates
                a = check_cell(acc, 'trunc', p1, names, row, specs[k + 2], p_first, R.part(u, first))
                b = check_cell(acc, 'trunc', p1, names, row, specs[k + 3], p_before, R.part(u, R.add_days(first, -1)))
                if a and b:
                    law(acc, p_first == p_d and p_before != p_d, f'date_part:{u}',
                        f"date_part('{u}') does not agree with date_trunc('{u}') around {x}", 'trunc', p1, [row])
                    acc.count('nontrivial_cells', 2)
        prev_row, prev_cells = row, cells
    if rows:
        acc.sample({'section': 'trunc', 'statement': 'SELECT ' + ', '.join(sp.text for sp in specs[:5]) + ', ... FROM t',
                    'row': lit(rows[len(rows) // 2][0]), 'cells': [lit(c) for c in res[len(rows) // 2][:5]]}, limit=1)


def sec_parts(acc, rows, params):
    rows = _as_dates(rows)
    d = col('d')
    specs = [
        Spec(F('year', d), 'year', lambda r: r[0].year),
        Spec(F('month', d), 'month', lambda r: r[0].month),
        Spec(F('day', d), 'day', lambda r: r[0].day),
        Spec(F('quarter', d), 'quarter', lambda r: R.quarter_label(r[0])),
        Spec(F('weekday', d), 'weekday', lambda r: R.DAY_ABBR[R.weekday(r[0])]),
        Spec(F('yearmonth', d), 'yearmonth', lambda r: R.first_of_unit('month', r[0])),
    ]
    for f in R.PART_FIELDS:
        specs.append(Spec(F('date_part', C(f), d), f'date_part:{f}', lambda r, f=f: R.part(f, r[0])))
    res = run_specs(acc, 'parts', params, plain_conn, DCOL, rows, specs)
    if rows:
        acc.sample({'section': 'parts', 'row': lit(rows[0][0]), 'cells': {sp.text: lit(c) for sp, c in zip(specs, res[0])}}, limit=1)


def boundary_dates(years):
    out = []
    for y in years:
        for m in range(1, 13):
            last = R.days_in_month(y, m)
            for dd in sorted({1, 2, 28, last - 1, last}):
                out.append(DATE(y, m, dd))
    return out


NRANGE = range(-400, 401)


def sec_addsub(acc, rows, params):
    rows = [tuple(r) for r in rows]
    d, n = col('d'), col('n')
    da = F('date_add', d, n)
    plus = lambda r: R.add_days(r[0], r[1])
    specs = [
        Spec(da, 'date_add', plus),
        Spec(A.Add(d, n), 'date+int', plus),
        Spec(A.Add(n, d), 'int+date', plus),
        Spec(A.Sub(d, n), 'date-int', lambda r: R.add_days(r[0], -r[1])),
        Spec(F('date_diff', da, d), 'date_diff', lambda r: r[1]),
        Spec(F('date_diff', d, da), 'date_diff', lambda r: -r[1]),
        Spec(A.Sub(da, d), 'date-date', lambda r: r[1]),
        Spec(F('date_add', da, A.Neg(n)), 'date_add', lambda r: r[0]),
        Spec(A.Sub(A.Add(d, n), n), 'date-int', lambda r: r[0]),
        Spec(A.Add(A.Sub(d, n), n), 'date+int', lambda r: r[0]),
    ]
    cols = [('d', DATE), ('n', int)]
    names = ['d', 'n']
    if len(set(rows)) != len(rows):
        raise AssertionError('harness: duplicate rows')
    acc.count('argument_rows', len(rows))
    res = evaluate(acc, plain_conn, cols, rows, [sp.expr for sp in specs])
    for row, cells in zip(rows, res):
        base_ok = True
        for k, sp in enumerate(specs):
            # inverse laws are only attributed when the forward step itself was right
            if k >= 4 and not base_ok:
                acc.count('cells')
                continue
            ok = check_cell(acc, 'addsub', params, names, row, sp, cells[k], sp.expect(row))
            if k == 0:
                base_ok = ok
            if ok and row[1] != 0:
                acc.count('nontrivial_cells')
        if cells[0].__class__ is DATE and (cells[0].month != row[0].month):
            acc.count('addsub_crossing_month')
        if cells[0].__class__ is DATE and (cells[0].year != row[0].year):
            acc.count('addsub_crossing_year')
    if rows:
        acc.sample({'section': 'addsub', 'row': [lit(v) for v in rows[0]], 'cells': {sp.text: lit(c) for sp, c in zip(specs, res[0])}}, limit=1)


def sec_pairs(acc, rows, params):
    rows = [tuple(r) for r in rows]
    x, y = col('x'), col('y')
    diff = lambda r: R.diff_days(r[0], r[1])
    specs = [
        Spec(F('date_diff', x, y), 'date_diff', diff),
        Spec(A.Sub(x, y), 'date-date', diff),
        Spec(F('date_add', y, F('date_diff', x, y)), 'date_add', lambda r: r[0]),
        Spec(A.Add(y, A.Sub(x, y)), 'date+int', lambda r: r[0]),
        Spec(A.Sub(x, A.Sub(x, y)), 'date-int', lambda r: r[1]),
    ]
    cols = [('x', DATE), ('y', DATE)]
    if len(set(rows)) != len(rows):
        raise AssertionError('harness: duplicate rows')
    acc.count('argument_rows', len(rows))
    res = evaluate(acc, plain_conn, cols, rows, [sp.expr for sp in specs])
    for row, cells in zip(rows, res):
        ok = [check_cell(acc, 'pairs', params, ['x', 'y'], row, sp, got, sp.expect(row)) for sp, got in zip(specs[:2], cells)]
        # the inverse laws are attributed to date_add / date +- int only when the difference itself was right
        for k, base in ((2, ok[0]), (3, ok[1]), (4, ok[1])):
            acc.count('cells')
            if base:
                acc.count('cells', -1)
                check_cell(acc, 'pairs', params, ['x', 'y'], row, specs[k], cells[k], specs[k].expect(row))
        if row[0] != row[1]:
            acc.count('nontrivial_cells', 5)
    if rows:
        acc.sample({'section': 'pairs', 'row': [lit(v) for v in rows[-1]], 'cells': {sp.text: lit(c) for sp, c in zip(specs, res[-1])}}, limit=1)


DAY_STRIDES = (1, 2, 3, 7, 30)
MONTH_STRIDES = ((1, '1 month'), (2, '2 months'), (3, '3 months'), (6, '6 months'), (12, '12 months'),
                 (12, '1 year'), (24, '2 years'))


def stride_text(n):
    return '1 day' if n == 1 else f'{n} days'


def sec_bin_day(acc, rows, params):
    rows = _as_dates(rows)
    origin = params['origin']
    d = col('d')
    specs = []
    for n in DAY_STRIDES:
        exp = lambda r, n=n: R.bin_days(r[0], origin, n)
        specs.append((n, Spec(F('date_bin', C(stride_text(n)), d, C(origin)), 'date_bin:day', exp)))
        if n in params.get('interval_overload', DAY_STRIDES):
            specs.append((n, Spec(F('date_bin', F('interval', C(stride_text(n))), d, C(origin)), 'date_bin:day', exp)))
    acc.count('argument_rows', len(rows))
    res = evaluate(acc, plain_conn, DCOL, rows, [sp.expr for _, sp in specs])
    for row, cells in zip(rows, res):
        x = row[0]
        for (n, sp), got in zip(specs, cells):
            if got.__class__ is DATE:
                acc.count('cells')
                # the property itself: start <= d < start + stride, aligned to the origin
                ok = got <= x < R.add_days(got, n) and R.diff_days(got, origin) % n == 0
                law(acc, ok, sp.fp, f'{sp.text} with d={x} = {got}; expected the start of the {n}-day bin aligned to {origin} that contains d '
                                    f'({R.bin_days(x, origin, n)})', 'bin_day', params, [row])
                if got != x:
                    acc.count('nontrivial_cells')
                else:
                    acc.count('bin_on_boundary')
                if x < origin:
                    acc.count('bin_before_origin')
            else:
                check_cell(acc, 'bin_day', params, ['d'], row, sp, got, sp.expect(row))
    if rows:
        acc.sample({'section': 'bin_day', 'origin': lit(origin), 'row': lit(rows[0][0]),
                    'cells': {sp.text: lit(c) for (_, sp), c in zip(specs, res[0])}}, limit=1)


def sec_bin_month(acc, rows, params):
    rows = _as_dates(rows)
    origin, n, text = params['origin'], params['months'], params['stride']
    d = col('d')
    specs = [Spec(F('date_bin', C(text), d, C(origin)), 'date_bin:month', None),
             Spec(F('date_bin', F('interval', C(text)), d, C(origin)), 'date_bin:month', None)]
    acc.count('argument_rows', len(rows))
    res = evaluate(acc, plain_conn, DCOL, rows, [sp.expr for sp in specs])
    for row, cells in zip(rows, res):
        x = row[0]
        exp = R.bin_months(x, origin, n)
        for sp, got in zip(specs, cells):
            if got.__class__ is not DATE:
                check_cell(acc, 'bin_month', params, ['d'], row, sp, got, exp)
                continue
            acc.count('cells')
            # the property: start <= d < start + stride and start = origin + k * stride
            k, rem = divmod(R.month_index(got) - R.month_index(origin), n)
            ok = got.day == origin.day and rem == 0 and got <= x < R.add_months(got, n)
            if ok != (got == exp):
                raise AssertionError(f'harness: closed form and definition disagree for {x}, {origin}, {n}')
            if not ok:
                # one known defect has its own locus: date exactly on a bin boundary after the origin -> previous bin
                on_boundary = x == exp and x > origin and got == R.add_months(exp, -n)
                fp = 'date_bin:month-boundary' if on_boundary else 'date_bin:month'
                law(acc, False, fp, f'{sp.text} with d={x} = {got}; expected {exp}: the bin [{exp}, {R.add_months(exp, n)}) is aligned to '
                                    f'{origin} and contains d' + (' (d is itself a bin start; the previous bin was returned)' if on_boundary else ''),
                    'bin_month', params, [row])
            else:
                acc.count('law_checks')
            if got != x:
                acc.count('nontrivial_cells')
            if x == exp:
                acc.count('bin_on_boundary')
            if x < origin:
                acc.count('bin_before_origin')
    if rows:
        acc.sample({'section': 'bin_month', 'origin': lit(origin), 'stride': text, 'row': lit(rows[len(rows) // 3][0]),
                    'cells': [lit(c) for c in res[len(rows) // 3]]}, limit=1)


_IV = re.compile(r'([-+]?[0-9]+) (day|month|year)s?\Z')


def iv_parse(s):
    """(months, days) of an interval text -- the check's own reading of 'n unit'."""
    m = _IV.match(s)
    n = int(m.group(1))
    return {'day': (0, n), 'month': (n, 0), 'year': (12 * n, 0)}[m.group(2)]


def sec_interval(acc, rows, params):
    rows = [tuple(r) for r in rows]
    d, s = col('d'), col('s')
    iv = F('interval', s)

    def plus(r):
        m, k = iv_parse(r[1])
        return R.apply_interval(r[0], m, k)

    def minus(r):
        m, k = iv_parse(r[1])
        return R.apply_interval(r[0], -m, -k)

    specs = [Spec(A.Add(d, iv), 'date+interval', plus), Spec(A.Add(iv, d), 'interval+date', plus),
             Spec(A.Sub(d, iv), 'date-interval', minus)]
    res = run_specs(acc, 'interval', params, plain_conn, [('d', DATE), ('s', str)], rows, specs, outcomes=False)
    for row, cells in zip(rows, res):
        if cells[0].__class__ is DATE and cells[0].day != row[0].day and iv_parse(row[1])[1] == 0:
            acc.count('interval_day_clipped')
    if rows:
        acc.sample({'section': 'interval', 'row': [lit(v) for v in rows[0]], 'cells': {sp.text: lit(c) for sp, c in zip(specs, res[0])}}, limit=1)


def sec_interval2(acc, rows, params):
    rows = [tuple(r) for r in rows]
    d = col('d')
    both = A.Add(F('interval', col('s1')), F('interval', col('s2')))

    def expect(r):
        (m1, k1), (m2, k2) = iv_parse(r[1]), iv_parse(r[2])
        ok = {R.apply_interval(r[0], m1 + m2, k1 + k2),
              R.apply_interval(R.apply_interval(r[0], m1, k1), m2, k2),
              R.apply_interval(R.apply_interval(r[0], m2, k2), m1, k1)}
        return ok

    def pred(r):
        ok = expect(r)
        return Pred(lambda got: None if got.__class__ is DATE and got in ok else 'one of ' + ', '.join(sorted(map(str, ok))))

    specs = [Spec(A.Add(d, both), 'interval+interval', pred), Spec(A.Add(both, d), 'interval+interval', pred)]
    res = run_specs(acc, 'interval2', params, plain_conn, [('d', DATE), ('s1', str), ('s2', str)], rows, specs, outcomes=False)
    for row in rows:
        acc.count('interval2_ambiguous' if len(expect(row)) > 1 else 'interval2_determinate')
    if rows:
        acc.sample({'section': 'interval2', 'row': [lit(v) for v in rows[0]], 'cells': {sp.text: lit(c) for sp, c in zip(specs, res[0])}}, limit=1)


# =====================================================================================================
# Account sections
# =====================================================================================================

COMPONENT_SETS = (('A', 'Bb', 'C1', 'Zed'), ('Cash', 'X9', 'Zz', 'Q'), ('Us', 'B2b', 'M', 'Nn'), ('K', 'Bank', 'T3', 'Yy'))


def account_names(config, seed, ncomp, depth=5):
    comps = COMPONENT_SETS[seed % len(COMPONENT_SETS)][:ncomp]
    out = []
    for root in ROOTS[config]:
        for k in range(depth):
            for tail in itertools.product(comps, repeat=k):
                out.append(':'.join((root,) + tail))
    return out


def sec_acct_root(acc, rows, params):
    """rows: (a, n), n >= 1."""
    rows = [tuple(r) for r in rows]
    factory = lambda: ledger_conn(params['config'])
    first = lambda r: ':'.join(r[0].split(':')[:r[1]])
    specs = [Spec(F('root', col('a'), col('n')), 'root', first)]
    run_specs(acc, 'acct_root', params, factory, [('a', str), ('n', int)], rows, specs)
    for r in rows:
        acc.count('root_shortening' if r[1] < len(r[0].split(':')) else 'root_whole_name')


def _comps(name):
    return name.split(':') if name else []


def no_parent():
    return Pred(lambda got: None if got is None or (isinstance(got, str) and got == '') else "NULL or '' (a one-component name has no parent)")


def parent_expect(name):
    """parent of a (reference) name: all components but the last; a name of <= 1 component has none (NULL or '')."""
    c = _comps(name)
    return ':'.join(c[:-1]) if len(c) >= 2 else no_parent()


def leaf_expect(name):
    c = _comps(name)
    return c[-1] if c else no_parent()       # leaf of the empty name: nothing (NULL or '')


def _ref_parent(name):
    return ':'.join(_comps(name)[:-1])


def acct_part_specs(a):
    """a: the operand expression (column or literal); expectation functions take the name."""
    root1 = F('root', a, C(1))
    return [
        ('root', F('root', a), lambda n: _comps(n)[0]),
        ('leaf', F('leaf', a), leaf_expect),
        ('parent', F('parent', a), parent_expect),
        # nested calls: a one-component operand that is itself computed
        ('parent', F('parent', root1), lambda n: no_parent()),
        ('leaf', F('leaf', root1), lambda n: _comps(n)[0]),
        ('parent', F('parent', F('parent', a)), lambda n: parent_expect(_ref_parent(n))),
        ('leaf', F('leaf', F('parent', a)), lambda n: leaf_expect(_ref_parent(n))),
        ('root', F('root', F('parent', a)), lambda n: _comps(n)[0] if len(_comps(n)) >= 2 else no_parent()),
    ]


def decomposition_law(acc, section, params, row, name, lf, pa):
    """For every name: a == parent(a) + ':' + leaf(a) when parent(a) is non-empty, a == leaf(a) when it is empty / NULL.
    A failure whose cause is a cell already reported under 'parent' / 'leaf' keeps that fingerprint."""
    if not (isinstance(lf, str) and (pa is None or isinstance(pa, str))):
        return
    pe, le = parent_expect(name), leaf_expect(name)
    already = (pe.test(pa) is not None if pe.__class__ is Pred else pa != pe) or lf != le
    rebuilt = lf if not pa else pa + ':' + lf
    law(acc, rebuilt == name or already, 'parent:leaf',
        f"parent({lit(name)}) = {lit(pa)}, leaf({lit(name)}) = {lit(lf)}: they rebuild {lit(rebuilt)}, not the name", section, params, [row])


DEPENDS_ON_PARENT = (5, 6, 7)      # positions in acct_part_specs whose operand is parent(a) (position 2)


def check_acct_row(acc, section, params, row, name, specs, cells):
    """Compare the cells of one name; results computed FROM parent(a) are only attributed when parent(a) itself was right."""
    ok_parent = True
    for k, (sp, got) in enumerate(zip(specs, cells)):
        if k in DEPENDS_ON_PARENT and not ok_parent:
            acc.count('cells')
            continue
        ok = check_cell(acc, section, params, ['a'], row, sp, got, sp.expect(row))
        if k == 2:
            ok_parent = ok
        if got is None:
            acc.count('null_results')
        elif isinstance(got, str):
            note_outcome(acc, sp.fp, got)
            if got != name:
                acc.count('nontrivial_cells')
    decomposition_law(acc, section, params, row, name, cells[1], cells[2])


def sec_acct_parts(acc, rows, params):
    """rows: (a,): root(a), parent, leaf and nested calls over a column; the decomposition law for every name."""
    rows = [tuple(r) for r in rows]
    factory = lambda: ledger_conn(params['config'])
    specs = [Spec(e, fp, lambda r, f=f: f(r[0])) for fp, e, f in acct_part_specs(col('a'))]
    if len(set(rows)) != len(rows):
        raise AssertionError('harness: duplicate account names')
    acc.count('argument_rows', len(rows))
    res = evaluate(acc, factory, [('a', str)], rows, [sp.expr for sp in specs])
    for row, cells in zip(rows, res):
        check_acct_row(acc, 'acct_parts', params, row, row[0], specs, cells)
        acc.count('parent_of_one_component_name' if ':' not in row[0] else 'parent_of_deeper_name')
    if rows:
        acc.sample({'section': 'acct_parts', 'config': params['config'], 'row': rows[-1][0], 'cells': [lit(c) for c in res[-1]]}, limit=1)


def sec_acct_parts_const(acc, rows, params):
    """rows: (a,): the same expressions with the name as a literal operand (constant folding path)."""
    rows = [tuple(r) for r in rows]
    factory = lambda: ledger_conn(params['config'])
    acc.count('argument_rows', len(rows))
    for row in rows:
        name = row[0]
        specs = [Spec(e, fp, lambda r, f=f: f(r[0])) for fp, e, f in acct_part_specs(C(name))]
        cells = evaluate(acc, factory, [('z', int)], [(0,)], [sp.expr for sp in specs])[0]
        check_acct_row(acc, 'acct_parts_const', params, row, name, specs, cells)
        acc.count('parent_of_one_component_literal' if ':' not in name else 'parent_of_deeper_literal')


def sec_acct_sort(acc, rows, params):
    """rows: (a,) -- account_sortkey orders by (type index, name); also through a real ORDER BY."""
    rows = [tuple(r) for r in rows]
    config = params['config']
    factory = lambda: ledger_conn(config)
    roots = ROOTS[config]
    refkey = lambda name: (roots.index(name.split(':')[0]), name)
    a = col('a')
    key = F('account_sortkey', a)
    anykey = lambda r: Pred(lambda got: None if isinstance(got, str) else 'a string sort key')
    res = run_specs(acc, 'acct_sort', params, factory, [('a', str)], rows, [Spec(key, 'account_sortkey', anykey)], outcomes=False)
    keyed = [(cells[0], row[0]) for row, cells in zip(rows, res) if isinstance(cells[0], str)]
    by_ref = sorted(keyed, key=lambda kr: refkey(kr[1]))
    for (k1, n1), (k2, n2) in zip(by_ref, by_ref[1:]):
        # names are distinct, so the reference order is strict; a total strict order is determined by its adjacent pairs
        law(acc, k1 < k2, 'account_sortkey', f'account_sortkey({lit(n1)}) = {lit(k1)} is not below account_sortkey({lit(n2)}) = {lit(k2)} '
                                             f'although {n1} sorts before {n2} by (account type, name)', 'acct_sort', params, [(n1,), (n2,)])
        if n1.split(':')[0] != n2.split(':')[0]:
            acc.count('sortkey_pairs_across_types')
    # ORDER BY account_sortkey(a) on the rows given in reverse reference order
    rev = sorted(rows, key=lambda r: refkey(r[0]), reverse=True)
    acc.count('queries')
    try:
        conn = factory()
        conn.tables['t'] = HTable([('a', str)], rev, name='t')
        got = [r[0] for r in conn.execute(select([(a, 'a')], from_='t', order_by=[A.OrderBy(key, A.Ordering.ASC)])).fetchall()]
    except Exception as exc:
        acc.violation(crash_fingerprint(exc), f'SELECT a FROM t ORDER BY account_sortkey(a) raised {type(exc).__name__}: {exc}',
                      mkcase('acct_sort', params, rows[:2]))
        return
    exp = [r[0] for r in reversed(rev)]
    acc.count('cells', len(rev))
    if got != exp:
        i = next(i for i, (g, e) in enumerate(zip(got, exp)) if g != e)
        law(acc, False, 'account_sortkey', f'ORDER BY account_sortkey(a): position {i} is {lit(got[i])}, expected {lit(exp[i])}',
            'acct_sort', params, [(got[i],), (exp[i],)])
    else:
        acc.count('law_checks')


POSSIGN_NUMBERS = (D('-2.5'), D('0'), D('1'), D('3.25'))


def sec_acct_possign(acc, rows, params):
    """rows: (a, x Decimal).  Amount / Position / Inventory operands are derived from x."""
    rows = [tuple(r) for r in rows]
    config = params['config']
    factory = lambda: ledger_conn(config)
    roots = ROOTS[config]
    credit = lambda name: roots.index(name.split(':')[0]) in (1, 2, 3)     # liabilities, equity, income
    cols = [('a', str), ('x', D), ('am', bc_amount.Amount), ('po', bc_position.Position), ('iv', bc_inventory.Inventory)]
    trows = []
    for a_, x in rows:
        am = bc_amount.Amount(x, 'USD')
        po = bc_position.Position(am, None)
        iv = bc_inventory.Inventory([po])
        trows.append((a_, x, am, po, iv))

    def num(fn):
        def expect(r):
            want = -r[1] if credit(r[0]) else r[1]
            return Pred(lambda got: None if fn(got) == want else f'{"-x" if credit(r[0]) else "x"} = {want} '
                        f'({"credit" if credit(r[0]) else "debit"}-normal account)')
        return expect

    def inv_number(got):
        if not isinstance(got, bc_inventory.Inventory):
            return None
        ps = got.get_positions()
        return ps[0].units.number if len(ps) == 1 and ps[0].units.currency == 'USD' else (D(0) if not ps else None)

    a = col('a')
    specs = [
        Spec(F('possign', col('x'), a), 'possign', num(lambda g: g if isinstance(g, D) else None)),
        Spec(F('possign', col('am'), a), 'possign', num(lambda g: g.number if isinstance(g, bc_amount.Amount) and g.currency == 'USD' else None)),
        Spec(F('possign', col('po'), a), 'possign', num(lambda g: g.units.number if isinstance(g, bc_position.Position) and g.units.currency == 'USD' else None)),
        Spec(F('possign', col('iv'), a), 'possign', num(inv_number)),
    ]
    names = ['a', 'x']
    acc.count('argument_rows', len(rows))
    res = evaluate(acc, factory, cols, trows, [sp.expr for sp in specs])
    for row, cells in zip(rows, res):
        for sp, got in zip(specs, cells):
            check_cell(acc, 'acct_possign', params, names, row, sp, got, sp.expect(row))
            if credit(row[0]) and row[1] != 0:
                acc.count('nontrivial_cells')
                acc.count('possign_flipped_expected')
    if rows:
        acc.sample({'section': 'acct_possign', 'config': config, 'row': [lit(v) for v in rows[-1]], 'cells': [repr(c) for c in res[-1]]}, limit=1)


# =====================================================================================================
# String sections
# =====================================================================================================

LETTER_PAIRS = (('a', 'B'), ('b', 'C'), ('x', 'Y'), ('q', 'A'), ('m', 'K'), ('e', 'Z'), ('h', 'D'), ('t', 'R'))


def alphabet(seed, size):
    lo, up = LETTER_PAIRS[seed % len(LETTER_PAIRS)]
    return [lo, up, ':', ' ', '7'][:size]


def all_strings(alpha, maxlen):
    return [''.join(t) for k in range(maxlen + 1) for t in itertools.product(alpha, repeat=k)]


def ref_upper(s):
    return ''.join(chr(ord(c) - 32) if 'a' <= c <= 'z' else c for c in s)


def ref_lower(s):
    return ''.join(chr(ord(c) + 32) if 'A' <= c <= 'Z' else c for c in s)


def ref_len(s):
    n = 0
    for _ in s:
        n += 1
    return n


def ref_slice(s, i, j):
    """s[i:j] spelled out: negative positions count from the end, everything is clamped to [0, len]."""
    n = ref_len(s)
    i = max(n + i, 0) if i < 0 else min(i, n)
    j = max(n + j, 0) if j < 0 else min(j, n)
    return ''.join(s[k] for k in range(i, j))


def ref_split(s, delim):
    out, cur, k = [], '', 0
    while k < len(s):
        if s.startswith(delim, k):
            out.append(cur)
            cur = ''
            k += len(delim)
        else:
            cur += s[k]
            k += 1
    out.append(cur)
    return out


def sec_str_basic(acc, rows, params):
    rows = [tuple(r) for r in rows]
    s = col('s')
    specs = [Spec(F('upper', s), 'upper', lambda r: ref_upper(r[0])), Spec(F('lower', s), 'lower', lambda r: ref_lower(r[0])),
             Spec(F('length', s), 'length', lambda r: ref_len(r[0]))]
    res = run_specs(acc, 'str_basic', params, plain_conn, [('s', str)], rows, specs)
    if rows:
        acc.sample({'section': 'str_basic', 'row': lit(rows[-1][0]), 'cells': [lit(c) for c in res[-1]]}, limit=1)


def sec_str_substr(acc, rows, params):
    rows = [tuple(r) for r in rows]
    specs = [Spec(F('substr', col('s'), col('i'), col('j')), 'substr', lambda r: ref_slice(*r))]
    res = run_specs(acc, 'str_substr', params, plain_conn, [('s', str), ('i', int), ('j', int)], rows, specs)
    for cells in res:
        if cells[0] == '':
            acc.count('substr_empty_results')
    if rows:
        acc.sample({'section': 'str_substr', 'row': [lit(v) for v in rows[-1]], 'cells': [lit(c) for c in res[-1]]}, limit=1)


def sec_str_split(acc, rows, params):
    """rows: (s, delim, idx) with idx in range for the split."""
    rows = [tuple(r) for r in rows]

    def exp(r):
        parts = ref_split(r[0], r[1])
        return parts[r[2] if r[2] >= 0 else len(parts) + r[2]]

    specs = [Spec(F('splitcomp', col('s'), col('dl'), col('i')), 'splitcomp', exp)]
    run_specs(acc, 'str_split', params, plain_conn, [('s', str), ('dl', str), ('i', int)], rows, specs)


PLACEHOLDER = '[...]'


def maxwidth_pred(s, n):
    words = s.split()
    norm = ' '.join(words)

    def test(got):
        if not isinstance(got, str):
            return 'a string'
        if ref_len(got) > n:
            return f'at most {n} characters'
        if ref_len(norm) <= n:
            if got == norm or (got == s and ref_len(s) <= n):
                return None
            return f'{lit(norm)} (the text fits into the width)'
        allowed = [PLACEHOLDER] + [' '.join(words[:k]) + ' ' + PLACEHOLDER for k in range(1, len(words))]
        if got in allowed:
            return None
        return 'whole leading words followed by "[...]", one of ' + ', '.join(lit(x) for x in allowed if ref_len(x) <= n)
    return Pred(test)


def sec_str_maxwidth(acc, rows, params):
    rows = [tuple(r) for r in rows]
    specs = [Spec(F('maxwidth', col('s'), col('n')), 'maxwidth', lambda r: maxwidth_pred(r[0], r[1]))]
    res = run_specs(acc, 'str_maxwidth', params, plain_conn, [('s', str), ('n', int)], rows, specs)
    for row, cells in zip(rows, res):
        if isinstance(cells[0], str) and cells[0].endswith(PLACEHOLDER) and not row[0].endswith(PLACEHOLDER):
            acc.count('maxwidth_truncated')
    if rows:
        acc.sample({'section': 'str_maxwidth', 'row': [lit(v) for v in rows[-1]], 'cells': [lit(c) for c in res[-1]]}, limit=1)


def patterns(alpha):
    lo, up = alpha[0], alpha[1]
    return [lo, up, lo + '+', '^' + lo, lo + '$', '[' + lo + up + ']', ':', lo + '|' + up, '(' + lo + ')(' + up + ')?', '.',
            lo + '*', '#', '(' + lo + '|:)(.)', ' +', '^$', '(?:' + up + lo + ')+']


def ref_search(p, s):
    """leftmost match of p in s by trying every start position (search = match at the first position that works)."""
    rx = re.compile(p)
    for k in range(len(s) + 1):
        m = rx.match(s, k)
        if m is not None:
            return m
    return None


def sec_str_grep(acc, rows, params):
    """rows: (p, s, n) with 0 <= n <= number of groups of p; grep for n == 0."""
    rows = [tuple(r) for r in rows]

    def g_exp(r):
        m = ref_search(r[0], r[1])
        return None if m is None else m.group(r[2])

    p, s, n = col('p'), col('s'), col('n')
    cols = [('p', str), ('s', str), ('n', int)]
    zero = [r for r in rows if r[2] == 0]
    run_specs(acc, 'str_grep', params, plain_conn, cols, zero, [Spec(F('grep', p, s), 'grep', g_exp), Spec(F('grepn', p, s, n), 'grepn', g_exp)])
    rest = [r for r in rows if r[2] != 0]
    res = run_specs(acc, 'str_grep', params, plain_conn, cols, rest, [Spec(F('grepn', p, s, n), 'grepn', g_exp)])
    if rest:
        acc.sample({'section': 'str_grep', 'row': [lit(v) for v in rest[-1]], 'cells': [lit(c) for c in res[-1]]}, limit=1)


def ref_sub(p, repl, s):
    """Leftmost non-overlapping substitution spelled out with match spans (empty matches adjacent to a
    previous match are allowed, as in Python >= 3.7)."""
    out, pos = [], 0
    for m in re.compile(p).finditer(s):
        out.append(s[pos:m.start()])
        out.append(m.expand(repl))
        pos = m.end()
    out.append(s[pos:])
    return ''.join(out)


def sec_str_subst(acc, rows, params):
    rows = [tuple(r) for r in rows]
    specs = [Spec(F('subst', col('p'), col('r'), col('s')), 'subst', lambda r: ref_sub(r[0], r[1], r[2]))]
    run_specs(acc, 'str_subst', params, plain_conn, [('p', str), ('r', str), ('s', str)], rows, specs)
    for r in rows:
        if ref_search(r[0], r[2]) is not None:
            acc.count('subst_with_match')


def _fs(v):
    return v if isinstance(v, frozenset) else frozenset(v)


def sec_str_sets(acc, rows, params):
    """rows: (set,): joinstr (multiset of items) and length(set)."""
    rows = [(_fs(r[0]),) for r in rows]

    def joined(r):
        want = sorted(r[0])

        def test(got):
            if not isinstance(got, str):
                return 'a string'
            if (got == '' and not want) or (want and sorted(got.split(',')) == want):
                return None
            return 'the members joined by commas in some order: ' + ','.join(want)
        return Pred(test)

    v = col('v')
    specs = [Spec(F('joinstr', v), 'joinstr', joined), Spec(F('length', v), 'length', lambda r: len(r[0]))]
    run_specs(acc, 'str_sets', params, plain_conn, [('v', set)], rows, specs)


def sec_str_findfirst(acc, rows, params):
    """rows: (p, set)."""
    rows = [(r[0], _fs(r[1])) for r in rows]

    def exp(r):
        p, vals = r
        rx = re.compile(p)

        def test(got):
            if got is None:
                hit = sorted(v for v in vals if rx.match(v))
                return None if not hit else f'a member matching the pattern (e.g. {lit(hit[0])}), not NULL'
            if isinstance(got, str) and got in vals and ref_search(p, got) is not None:
                return None
            return 'a member of the set in which the pattern is found, or NULL'
        return Pred(test)

    specs = [Spec(F('findfirst', col('p'), col('v')), 'findfirst', exp)]
    res = run_specs(acc, 'str_findfirst', params, plain_conn, [('p', str), ('v', set)], rows, specs)
    for row, cells in zip(rows, res):
        hit = sorted(v for v in row[1] if re.match(row[0], v))
        if hit and cells[0] == hit[0]:
            acc.count('findfirst_is_smallest_anchored_match')
        if not hit:
            acc.count('findfirst_no_anchored_match')


# =====================================================================================================
# Numeric sections
# =====================================================================================================

def decimals(mmax, exps):
    """m * 10^e as distinct representations (1.0 and 1 are different arguments)."""
    out = []
    for e in exps:
        for m in range(-mmax, mmax + 1):
            out.append(D(m).scaleb(e))
    return out


def num_eq(want):
    return Pred(lambda got: None if isinstance(got, D) and eq(got, want) else f'{want} (Decimal)')


def round_ref(x, digits):
    """(value, tie, kept_digit_even) -- nearest multiple of 10^-digits, exact ties to the even multiple (half-even),
    written with fractions only."""
    q = fractions.Fraction(10) ** (-digits)
    fx = fractions.Fraction(x)
    k = (fx / q).__floor__()            # fx lies in [k*q, (k+1)*q)
    rem = fx - k * q
    if rem * 2 < q:
        return k * q, False, None
    if rem * 2 > q:
        return (k + 1) * q, False, None
    # exact tie: towards zero the kept digit is that of k (x >= 0) or of k + 1 (x < 0)
    kept_even = (k if fx >= 0 else k + 1) % 2 == 0
    return (k if k % 2 == 0 else k + 1) * q, True, kept_even


def round_selfcheck(x, digits, single=False):
    """The reference must be CPython's own round() on the same operand (trusted); otherwise the harness is wrong."""
    want = round_ref(x, digits)[0]
    py = round(x, digits)
    if fractions.Fraction(py) != want or (single and fractions.Fraction(round(x)) != want):
        raise AssertionError(f'harness: round reference {want} differs from round({x!r}, {digits}) = {py!r}')


def round_pred(x, digits, typ):
    want, tie, _ = round_ref(x, digits)

    def test(got):
        if type(got) is not typ:
            return f'a result of type {typ.__name__}'
        try:
            if got.is_finite() if typ is D else True:
                if fractions.Fraction(got) == want:
                    return None
        except (ValueError, decimal.InvalidOperation):
            pass
        text = str(int(want)) if want.denominator == 1 else str(D(want.numerator) / D(want.denominator))
        return text + (' (exact tie: decimal arithmetic rounds to the even neighbour)' if tie else '')
    return Pred(test), tie


def note_tie(acc, x, digits):
    _, tie, kept_even = round_ref(x, digits)
    if tie:
        acc.count('round_exact_ties')
        acc.count(f"round_ties_{'pos' if x > 0 else 'neg'}_after_{'even' if kept_even else 'odd'}_digit_k{digits}")


def sec_num_unary(acc, rows, params):
    rows = [tuple(r) for r in rows]
    x = col('x')
    for r in rows:
        round_selfcheck(r[0], 0, single=True)
        note_tie(acc, r[0], 0)
    specs = [Spec(F('abs', x), 'abs', lambda r: num_eq(r[0] if r[0] >= 0 else 0 - r[0])),
             Spec(F('neg', x), 'neg', lambda r: num_eq(0 - r[0])),
             Spec(F('round', x), 'round', lambda r: round_pred(r[0], 0, D)[0])]
    res = run_specs(acc, 'num_unary', params, plain_conn, [('x', D)], rows, specs)
    if rows:
        acc.sample({'section': 'num_unary', 'row': lit(rows[0][0]), 'cells': [lit(c) for c in res[0]]}, limit=1)


def sec_num_round(acc, rows, params):
    """rows: (x, k) -- x Decimal or int (params['type']); operands are columns."""
    rows = [tuple(r) for r in rows]
    typ = D if params['type'] == 'decimal' else int
    for r in rows:
        round_selfcheck(r[0], r[1])
        note_tie(acc, r[0], r[1])
    specs = [Spec(F('round', col('x'), col('k')), 'round', lambda r: round_pred(r[0], r[1], typ)[0])]
    res = run_specs(acc, 'num_round', params, plain_conn, [('x', typ), ('k', int)], rows, specs)
    if typ is int:
        one = [r for r in rows if r[1] == 0]
        run_specs(acc, 'num_round', params, plain_conn, [('x', typ), ('k', int)], one,
                  [Spec(F('round', col('x')), 'round', lambda r: r[0])])
    ties = [(r, c) for r, c in zip(rows, res) if round_ref(r[0], r[1])[1]]
    if ties:
        acc.sample({'section': 'num_round', 'tie': [lit(v) for v in ties[-1][0]], 'cells': [lit(c) for c in ties[-1][1]]}, limit=1)


def sec_num_round_const(acc, rows, params):
    """rows: (x, k) -- the operands as literals (constant folding): round(x, k), round(x) for k = 0 and, for
    decimals, round(neg(-x), k)."""
    rows = [tuple(r) for r in rows]
    typ = D if params['type'] == 'decimal' else int
    acc.count('argument_rows', len(rows))
    for row in rows:
        x, k = row
        round_selfcheck(x, k)
        note_tie(acc, x, k)
        exprs = [F('round', C(x), C(k))]
        if k == 0:
            exprs.append(F('round', C(x)))
        if typ is D:
            exprs.append(F('round', F('neg', C(0 - x)), C(k)))
        cells = evaluate(acc, plain_conn, [('z', int)], [(0,)], exprs)[0]
        for e, got in zip(exprs, cells):
            check_cell(acc, 'num_round_const', params, ['x', 'k'], row, Spec(e, 'round', None), got, round_pred(x, k, typ)[0])
            if got is not None and got.__class__ is not Raised and not eq(got, x):
                acc.count('nontrivial_cells')


def quotient_pred(x, y):
    if y == 0:
        return Pred(lambda got: None if isinstance(got, D) and got == 0 else '0 (division by zero is trapped)')
    exact = fractions.Fraction(x) / fractions.Fraction(y)

    def test(got):
        if not isinstance(got, D) or not got.is_finite():
            return f'the quotient {float(exact)!r} as a Decimal'
        g = fractions.Fraction(got)
        if g == exact:
            return None
        digits = len(got.as_tuple().digits)
        ulp = fractions.Fraction(10) ** (got.adjusted() - 27)
        if digits >= 28 and abs(g - exact) <= ulp:
            return None
        return f'the quotient {float(exact)!r} exactly or rounded to 28 significant digits'
    return Pred(test)


def sec_num_safediv(acc, rows, params):
    rows = [tuple(r) for r in rows]
    typ = D if params['type'] == 'decimal' else int
    specs = [Spec(F('safediv', col('x'), col('y')), 'safediv', lambda r: quotient_pred(r[0], r[1]))]
    res = run_specs(acc, 'num_safediv', params, plain_conn, [('x', D), ('y', typ)], rows, specs, outcomes=False)
    for row, cells in zip(rows, res):
        if row[1] == 0:
            acc.count('safediv_zero_divisor')
        elif isinstance(cells[0], D) and len(cells[0].as_tuple().digits) >= 28:
            acc.count('safediv_inexact_quotients')
    if rows:
        acc.sample({'section': 'num_safediv', 'row': [lit(v) for v in rows[-1]], 'cells': [lit(c) for c in res[-1]]}, limit=1)


# =====================================================================================================
# Cast sections
# =====================================================================================================

def cast_values(seed):
    k = 7 + seed % 5
    vals = [0, 1, -1, k, -3, 2 ** 31, 2 ** 63, -(2 ** 63) - 1,
            True, False,
            D('0'), D('-0'), D('1'), D('-1'), D('2.0'), D('1.5'), D('-1.5'), D('1.9'), D('-1.9'), D('0.5'), D('1E+3'), D('1E+30'),
            D('123456789.123456789'), D(k) / 4, D('NaN'), D('-NaN'), D('sNaN'), D('Infinity'), D('-Infinity'),
            '', '0', '1', '12', '-3', '+4', '007', str(k), ' 12 ', '1_0', '１２', '1.5', '-1.50', '.5', '1e3', 'abc', 'TRUE', 'false',
            'NaN', 'Infinity', '-Infinity', 'inf', '2020-02-29', '2019-02-29', '2020-02-30', '2020-13-01', '2020-00-10', '2020-04-31',
            '0000-01-01', '2020-2-9', '20200101', ' 2020-01-01', '2020-01-01 ', '2020-01-01T00:00', '1900-01-01', '9999-12-31', '12:30', 'a b',
            DATE(1900, 1, 1), DATE(2020, 2, 29), DATE(9999, 12, 31), DATE(1, 1, 1),
            frozenset(), frozenset({'a'}), {}, {'k': 1}, [], [1], bc_amount.Amount(D('1.5'), 'USD'), None]
    return vals


COLTYPES = {'int': int, 'bool': bool, 'decimal': D, 'str': str, 'date': DATE, 'set': set, 'dict': dict, 'list': list, 'object': object}
CASTS = ('bool', 'int', 'decimal', 'str', 'date')
# overloads of the pinned tree: a lower bound (an added overload is never an alarm, a dropped one is)
REQUIRED = {('bool', t) for t in COLTYPES} | {('str', t) for t in COLTYPES} | \
           {(f, t) for f in ('int', 'decimal') for t in ('int', 'bool', 'decimal', 'str', 'object')} | \
           {('date', t) for t in ('date', 'str', 'object')}


def coltype_of(v):
    for name in ('bool', 'int', 'decimal', 'str', 'date'):
        if type(v) is COLTYPES[name]:
            return name
    if isinstance(v, frozenset):
        return 'set'
    if isinstance(v, dict):
        return 'dict'
    if isinstance(v, list):
        return 'list'
    return 'object'


_INT = re.compile(r'[+-]?[0-9]+\Z')
_DEC = re.compile(r'[+-]?(?:[0-9]+(?:\.[0-9]*)?|\.[0-9]+)\Z')
_ISO = re.compile(r'([0-9]{4})-([0-9]{2})-([0-9]{2})\Z')
INF = D('Infinity')
DEBATABLE_NUM = {' 12 ': [12], '1_0': [10], '１２': [12], '1e3': [1000]}
DEBATABLE_INT = {'1.5': [1, 2], '-1.50': [-1, -2], '.5': [0, 1]}
DEBATABLE_DEC = {'NaN': ['nan'], 'Infinity': [INF], '-Infinity': [-INF], 'inf': [INF]}
DEBATABLE_DATE = {'2020-2-9': DATE(2020, 2, 9), '20200101': DATE(2020, 1, 1), ' 2020-01-01': DATE(2020, 1, 1),
                  '2020-01-01 ': DATE(2020, 1, 1), '2020-01-01T00:00': DATE(2020, 1, 1)}


def ascii_int(s):
    sign = -1 if s[0] == '-' else 1
    n = 0
    for ch in s.lstrip('+-'):
        n = n * 10 + '0123456789'.index(ch)
    return sign * n


def of_type(typ, allow=None):
    return Pred(lambda got: None if got is None or type(got) is typ else f'a {typ.__name__} or NULL')


def null_or(typ, values):
    def test(got):
        if got is None:
            return None
        for v in values:
            if v == 'nan':
                if type(got) is typ and got.is_nan():
                    return None
            elif type(got) is typ and eq(got, v):
                return None
        return 'NULL or ' + ' or '.join(map(str, values))
    return Pred(test)


def value_eq(typ, want):
    return Pred(lambda got: None if type(got) is typ and eq(got, want) else f'{want} ({typ.__name__})')


ANYTHING = Pred(lambda got: None)


def cast_expect(func, v):
    """Expected result of func(v): a value (exact, type-exact), None (NULL) or a Pred."""
    if v is None:
        return ANYTHING
    t = coltype_of(v)
    if func == 'int':
        if t == 'bool':
            return 1 if v else 0
        if t == 'int':
            return v
        if t == 'decimal':
            if not v.is_finite():
                return None
            fr = fractions.Fraction(v)
            if fr.denominator == 1:
                return int(fr)
            return null_or(int, [fr.__floor__(), fr.__floor__() + 1])
        if t == 'str':
            if _INT.match(v):
                return ascii_int(v)
            if v in DEBATABLE_NUM or v in DEBATABLE_INT:
                return null_or(int, DEBATABLE_NUM.get(v) or DEBATABLE_INT[v])
        return None
    if func == 'decimal':
        if t == 'bool':
            return value_eq(D, 1 if v else 0)
        if t == 'int':
            return value_eq(D, v)
        if t == 'decimal':
            return null_or(D, ['nan']) if v.is_nan() else value_eq(D, v)
        if t == 'str':
            if _DEC.match(v):
                sign = -1 if v[0] == '-' else 1
                ip, _, fp = v.lstrip('+-').partition('.')
                return value_eq(D, sign * fractions.Fraction(ascii_int((ip + fp) or '0'), 10 ** len(fp)))
            if v in DEBATABLE_NUM or v in DEBATABLE_DEC:
                return null_or(D, DEBATABLE_NUM.get(v) or DEBATABLE_DEC[v])
        return None
    if func == 'str':
        if t == 'bool':
            return Pred(lambda got: None if isinstance(got, str) and got.lower() == ('true' if v else 'false') else "'TRUE'" if v else "'FALSE'")
        if t == 'int':
            digits = ''
            n = abs(v)
            while True:
                digits = '0123456789'[n % 10] + digits
                n //= 10
                if not n:
                    break
            return ('-' if v < 0 else '') + digits
        if t == 'decimal':
            if not v.is_finite():
                return of_type(str)

            def test(got):
                try:
                    return None if isinstance(got, str) and D(got) == v else f'a decimal numeral equal to {v}'
                except decimal.InvalidOperation:
                    return f'a decimal numeral equal to {v}'
            return Pred(test)
        if t == 'str':
            return v
        if t == 'date':
            return '%04d-%02d-%02d' % (v.year, v.month, v.day)
        return of_type(str)
    if func == 'bool':
        if t == 'bool':
            return v
        if t == 'int':
            return v != 0
        if t == 'decimal' and v.is_finite():
            return v != 0
        return of_type(bool)
    if func == 'date':
        if t == 'date':
            return v
        if t == 'str':
            m = _ISO.match(v)
            if m:
                y, mo, dd = (ascii_int(g) for g in m.groups())
                if 1 <= y <= 9999 and 1 <= mo <= 12 and 1 <= dd <= R.days_in_month(y, mo):
                    return DATE(y, mo, dd)
                return None
            if v in DEBATABLE_DATE:
                return null_or(DATE, [DEBATABLE_DATE[v]])
        return None
    raise KeyError(func)


def sec_cast(acc, rows, params):
    """rows: (index into cast_values(seed),); params: func, coltype ('const' = the value as a constant operand)."""
    vals = cast_values(params['seed'])
    func, coltype = params['func'], params['coltype']
    rows = [tuple(r) for r in rows]
    names = ['v']
    fp = f'cast:{func}'            # one implementation serves every overload of a cast: one locus
    acc.count('argument_rows', len(rows))
    if coltype == 'const':
        for (i,) in rows:
            v = vals[i]
            sp = Spec(F(func, C(v)), fp, None)
            got = evaluate(acc, plain_conn, [('z', int)], [(0,)], [sp.expr])[0][0]
            if got.__class__ is Raised and got.cls == 'CompilationError':
                acc.count('cast_static_rejections')
                continue
            _cast_cell(acc, params, names, (i,), v, sp, got, func)
        return
    sp = Spec(F(func, col('v')), fp, None)
    res = evaluate(acc, plain_conn, [('v', COLTYPES[coltype])], [(vals[i],) for (i,) in rows], [sp.expr])
    if rows and all(c[0].__class__ is Raised and c[0].cls == 'CompilationError' for c in res):
        acc.count('cast_static_rejections', len(rows))
        law(acc, (func, coltype) not in REQUIRED, f'{fp}({coltype}):rejected', f'{func}({coltype} column) is rejected at compile time: {res[0][0].text}',
            'cast', params, rows[:1])
        return
    for (i,), cells in zip(rows, res):
        _cast_cell(acc, params, names, (i,), vals[i], sp, cells[0], func)
    if rows:
        acc.sample({'section': 'cast', 'statement': f'SELECT {sp.text} FROM t', 'column': coltype, 'value': repr(vals[rows[-1][0]]),
                    'result': repr(res[-1][0])}, limit=1)


def _cast_cell(acc, params, names, row, v, sp, got, func):
    exp = cast_expect(func, v)
    acc.count('cells')
    case = mkcase('cast', params, [row])
    case['value'] = repr(v)
    if got.__class__ is Raised:
        acc.count('cells_raised')
        acc.violation(got.fp, f'{func}({v!r}) raised {got.text}; a cast returns the converted value or NULL, never an error', case)
        return
    if got is SKIPPED:
        acc.count('cells_unevaluated_after_crash_cap')
        return
    acc.count('law_checks')
    acc.count('null_results' if got is None else 'cast_converted')
    if got is not None and not (type(got) is type(v) and eq(got, v)):
        acc.count('nontrivial_cells')
    note_outcome(acc, f'{sp.fp}({params["coltype"]})', got)
    if exp.__class__ is Pred:
        err = exp.test(got)
        if err is not None:
            acc.violation(sp.fp, f'{func}({v!r}) = {got!r}; expected {err}', case)
    elif exp is None:
        if got is not None:
            acc.violation(sp.fp, f'{func}({v!r}) = {got!r}; expected NULL (no such conversion)', case)
    elif not same(got, exp):
        acc.violation(sp.fp, f'{func}({v!r}) = {got!r} ({type(got).__name__}); expected {exp!r} ({type(exp).__name__})', case)


def sec_cast_ymd(acc, rows, params):
    rows = [tuple(r) for r in rows]

    def exp(r):
        y, m, dd = r
        if 1 <= y <= 9999 and 1 <= m <= 12 and 1 <= dd <= R.days_in_month(y, m):
            return DATE(y, m, dd)
        return None

    specs = [Spec(F('date', col('y'), col('m'), col('dd')), 'cast:date(int,int,int)', exp)]
    res = run_specs(acc, 'cast_ymd', params, plain_conn, [('y', int), ('m', int), ('dd', int)], rows, specs, outcomes=False)
    for cells in res:
        if cells[0].__class__ is DATE:
            acc.count('cast_converted')


# =====================================================================================================
# Enumeration: the task list (deterministic; one task = one table of argument rows for one section)
# =====================================================================================================

def sec_selftest(acc, rows, params):
    acc.count('reference_selftest_comparisons', R.selftest())


SECTIONS = {
    'selftest': sec_selftest, 'trunc': sec_trunc, 'parts': sec_parts, 'addsub': sec_addsub, 'pairs': sec_pairs,
    'bin_day': sec_bin_day, 'bin_month': sec_bin_month, 'interval': sec_interval, 'interval2': sec_interval2,
    'acct_root': sec_acct_root, 'acct_parts': sec_acct_parts, 'acct_parts_const': sec_acct_parts_const, 'acct_sort': sec_acct_sort, 'acct_possign': sec_acct_possign,
    'str_basic': sec_str_basic, 'str_substr': sec_str_substr, 'str_split': sec_str_split, 'str_maxwidth': sec_str_maxwidth,
    'str_grep': sec_str_grep, 'str_subst': sec_str_subst, 'str_sets': sec_str_sets, 'str_findfirst': sec_str_findfirst,
    'num_unary': sec_num_unary, 'num_round': sec_num_round, 'num_round_const': sec_num_round_const, 'num_safediv': sec_num_safediv,
    'cast': sec_cast, 'cast_ymd': sec_cast_ymd,
}


def origins(seed):
    """first of a year; an ordinary mid-month day (rotated by the seed); Feb 28 of a leap year near the end of the range."""
    return [DATE(2000, 1, 1), DATE(1950, 1 + (5 + seed) % 12, 1 + (14 + 3 * seed) % 28), DATE(2096, 2, 28)]


def g_dates(lo, hi):
    return [(d,) for d in daterange(DATE.fromordinal(lo), DATE.fromordinal(hi))]


def g_addsub(years):
    return [(d, n) for d in boundary_dates(years) for n in NRANGE]


def g_pairs(years_x, years_y):
    return [(x, y) for x in boundary_dates(years_x) for y in boundary_dates(years_y)]


def interval_texts():
    out = []
    for n in range(-25, 26):
        out.append(('+' if n > 0 and n % 2 == 0 else '') + f'{n} month' + ('' if abs(n) == 1 else 's'))
    for n in range(-4, 5):
        out.append(('+' if n == 3 else '') + f'{n} year' + ('' if abs(n) == 1 else 's'))
    for n in (-400, -366, -365, -31, -30, -29, -28, -1, 0, 1, 28, 29, 30, 31, 365, 366, 400):
        out.append(f'{n} day' + ('' if abs(n) == 1 else 's'))
    return out


INTERVAL2_TEXTS = ('1 month', '-1 month', '2 months', '11 months', '-13 months', '1 year', '-1 year', '1 day', '-1 day', '30 days', '-31 days')


def g_interval(year, alldays):
    ds = [d for d in daterange(DATE(year, 1, 1), DATE(year, 12, 31)) if alldays or d.day in (1, 15) or d.day >= 27]
    return [(d, s) for d in ds for s in interval_texts()]


def g_interval2(year):
    ds = [d for d in daterange(DATE(year, 1, 1), DATE(year, 12, 31)) if d.day == 1 or d.day >= 28]
    return [(d, s1, s2) for d in ds for s1 in INTERVAL2_TEXTS for s2 in INTERVAL2_TEXTS]


def g_acct_root(config, seed, ncomp):
    return [(a, n) for a in account_names(config, seed, ncomp) for n in range(1, 7)]


def g_acct(config, seed, ncomp):
    return [(a,) for a in account_names(config, seed, ncomp)]


def g_acct_possign(config, seed, ncomp):
    return [(a, x) for a in account_names(config, seed, ncomp) for x in POSSIGN_NUMBERS]


def g_strings(seed, size, maxlen):
    return [(s,) for s in all_strings(alphabet(seed, size), maxlen)]


def g_substr(seed, size, maxlen, imax):
    r = range(-imax, imax + 1)
    return [(s, i, j) for s in all_strings(alphabet(seed, size), maxlen) for i in r for j in r]


def g_split(seed, size, maxlen, imax):
    alpha = alphabet(seed, size)
    out = []
    for s in all_strings(alpha, maxlen):
        for dl in (':', ' ', alpha[0], ':' + alpha[0]):
            k = len(ref_split(s, dl))
            for i in range(max(-k, -imax), min(k - 1, imax) + 1):
                out.append((s, dl, i))
    return out


MULTIWORD = ('hello world foo', 'ab  cd   efgh', ' lead and trail ', 'abcdefghij', 'abcdefghij kl', 'a b c d e f g', 'one', 'two words',
             'xxxxx', 'xxxxx y', 'xx yyyyyyyyyyyy zz', 'Assets:Bank:Checking account', 'five5 six66 seven77')


def g_maxwidth(seed, size, maxlen):
    alpha = alphabet(seed, size)
    strs = all_strings(alpha, maxlen) + list(MULTIWORD)
    strs += [''.join(t) for k in (6, 7) for t in itertools.product((alpha[0], ' '), repeat=k)]
    strs = list(dict.fromkeys(strs))
    return [(s, n) for s in strs for n in range(5, 19)]


def g_grep(seed, size, maxlen):
    alpha = alphabet(seed, size)
    return [(p, s, n) for p in patterns(alpha) for s in all_strings(alpha, maxlen) for n in range(re.compile(p).groups + 1)]


def g_subst(seed, size, maxlen):
    alpha = alphabet(seed, size)
    return [(p, r, s) for p in patterns(alpha) for r in ('', 'X', '<\\g<0>>') for s in all_strings(alpha, maxlen)]


def set_items(seed):
    lo, up = alphabet(seed, 2)
    return [lo, up, lo + up, '', up + ' ' + lo, ':', lo + lo]


def g_sets(seed, kmax):
    items = set_items(seed)
    return [(frozenset(c),) for k in range(kmax + 1) for c in itertools.combinations(items, k)]


def g_findfirst(seed, kmax):
    alpha = alphabet(seed, 4)
    lo, up = alpha[0], alpha[1]
    pats = patterns(alpha) + ['^' + up, '^.' + up, lo + lo, '^' + lo + '$', '.*' + up]
    return [(p, v[0]) for p in pats for v in g_sets(seed, kmax)]


def g_decimals(mmax, exps):
    return [(x,) for x in decimals(mmax, exps)]


ROUND_INTS = tuple(range(-20, 21)) + (25, 35, 45, 50, 55, 150, 250, -25, -35, -150, 1234, 995, 105, 115, 125, -105, -115, -125)
ROUND_DIGITS = (-1, 0, 1, 2)


def tie_decimals():
    """(j + 1/2) * 10^-k for every digits argument k: exact ties after an even and after an odd kept digit, both signs,
    one- and multi-digit kept parts, plus a second representation with a trailing zero."""
    out = []
    for k in ROUND_DIGITS:
        for j in (-13, -12, -3, -2, -1, 0, 1, 2, 11, 12):
            t = D(2 * j + 1).scaleb(-k) / 2 if k <= 0 else D(10 * j + 5).scaleb(-k - 1)
            out.append(t)
            out.append(t * D('1.0'))
    seen, uniq = set(), []
    for t in out:
        if str(t) not in seen:
            seen.add(str(t))
            uniq.append(t)
    return uniq


def round_values(kind, mmax, exps):
    if kind == 'int':
        return list(ROUND_INTS)
    seen, out = set(), []
    for x in decimals(mmax, exps) + tie_decimals():
        if str(x) not in seen:
            seen.add(str(x))
            out.append(x)
    return out


def g_round(kind, mmax, exps):
    return [(x, k) for x in round_values(kind, mmax, exps) for k in ROUND_DIGITS]


def g_round_const(kind):
    """ties for some digits argument (evaluated with every digits argument) and a few non-ties."""
    xs = [t for t in tie_decimals() if str(t)[-1] == '5'] + [D('0.124'), D('0.126'), D('-2.4'), D('2.6'), D('14'), D('16')] \
        if kind == 'decimal' else [x for x in ROUND_INTS if x % 5 == 0 and x % 10] + [14, 16, -14, -16, 0]
    return [(x, k) for x in xs for k in ROUND_DIGITS]


def g_unary(mmax, exps):
    return [(x,) for x in round_values('decimal', mmax, exps)]


def g_safediv(kind, mmax, exps, part, nparts):
    xs = decimals(mmax, exps)
    ys = xs if kind == 'decimal' else list(range(-20, 21))
    return [(x, y) for i, x in enumerate(xs) if i % nparts == part for y in ys]


def g_cast(seed, coltype):
    vals = cast_values(seed)
    return [(i,) for i, v in enumerate(vals) if coltype in ('object', 'const') and (v is not None or coltype == 'object')
            or (v is not None and coltype_of(v) == coltype)]


def g_ymd():
    ys = (-1, 0, 1, 1900, 2019, 2020, 2100, 9999, 10000)
    ms = (-1, 0, 1, 2, 4, 12, 13)
    ds = (-1, 0, 1, 28, 29, 30, 31, 32)
    big = [(2 ** 31, 1, 1), (2020, 2 ** 31, 1), (2020, 1, 2 ** 31), (2 ** 63, 1, 1), (-(2 ** 31) - 1, 1, 1)]
    return [t for t in itertools.product(ys, ms, ds)] + big


GEN = {f.__name__: f for f in (g_dates, g_addsub, g_pairs, g_interval, g_interval2, g_acct_root, g_acct, g_acct_possign, g_strings,
                               g_substr, g_split, g_maxwidth, g_grep, g_subst, g_sets, g_findfirst, g_decimals, g_round, g_round_const, g_unary, g_safediv,
                               g_cast, g_ymd)}
GEN['none'] = lambda: []

NCHUNK = 24


def chunks(lo, hi, n, overlap=0):
    """n contiguous ordinal ranges covering [lo, hi]; ``overlap`` extra days in front of each but the first."""
    a, b = lo.toordinal(), hi.toordinal()
    size = -(-(b - a + 1) // n)
    out = []
    for s in range(a, b + 1, size):
        out.append((max(a, s - overlap), min(b, s + size - 1)))
    return out


def build_tasks(tier, seed):
    """-> list of (weight, section, params, generator name, generator args), heaviest first (stable)."""
    quick = tier == 'quick'
    T = []

    def add(weight, section, params, gen, *args):
        T.append((weight, section, params, gen, args))

    add(30, 'selftest', {}, 'none')
    # --- dates -----------------------------------------------------------------------------------------
    for lo, hi in chunks(LO, HI, NCHUNK, overlap=1):
        add(20, 'trunc', {'lead': lo != LO.toordinal()}, 'g_dates', lo, hi)
    for lo, hi in chunks(LO, HI, NCHUNK):
        add(10, 'parts', {}, 'g_dates', lo, hi)
    # thorough: every leap year and the year before it (n = +-400 reaches into the two other years of each cycle), incl. 1900/2100
    years = (1900, 1999, 2000, 2001, 2019, 2020, 2024, 2100) if quick else tuple(y for y in range(1900, 2101) if y % 4 in (0, 3))
    for y in years:
        add(12, 'addsub', {}, 'g_addsub', (y,))
    py = (1900, 2000, 2020, 2100) if quick else (1900, 1999, 2000, 2001, 2019, 2020, 2024, 2100)
    for y in py:
        add(3, 'pairs', {}, 'g_pairs', (y,), py)
    span = 5 if quick else 30
    for o in origins(seed):
        for lo, hi in chunks(LO, HI, 8):
            # both overloads share the day branch; quick runs the interval overload for strides 1 and 7 only
            add(6, 'bin_day', {'origin': o, 'interval_overload': [1, 7] if quick else list(DAY_STRIDES)}, 'g_dates', lo, hi)
        wlo, whi = max(LO, R.add_months(o, -12 * span)), min(HI, R.add_months(o, 12 * span))
        for n, text in MONTH_STRIDES:
            pieces = 1 if quick else (8 if n <= 3 else 3)
            for lo, hi in chunks(wlo, whi, pieces):
                mid = abs((lo + hi) // 2 - o.toordinal()) + (hi - lo) / 4
                add((hi - lo + 1) * mid / (30 * n) / 2500, 'bin_month', {'origin': o, 'months': n, 'stride': text}, 'g_dates', lo, hi)
    iy = (1999, 2000, 2019, 2020, 2100) if quick else (1900, 1999, 2000, 2001, 2019, 2020, 2021, 2023, 2024, 2099, 2100)
    for y in iy:
        add(8 if not quick else 2, 'interval', {}, 'g_interval', y, not quick)
        add(3, 'interval2', {}, 'g_interval2', y)
    # --- accounts --------------------------------------------------------------------------------------
    ncomp = 3 if quick else 4
    for config in ('default', 'renamed'):
        p = {'config': config}
        add(1, 'acct_root', p, 'g_acct_root', config, seed, ncomp)
        add(1, 'acct_parts', p, 'g_acct', config, seed, ncomp)
        add(2, 'acct_parts_const', p, 'g_acct', config, seed, ncomp)
        add(1, 'acct_sort', p, 'g_acct', config, seed, ncomp)
        add(1, 'acct_possign', p, 'g_acct_possign', config, seed, ncomp)
    # --- strings ---------------------------------------------------------------------------------------
    size, maxlen, imax = (4, 3, 4) if quick else (5, 4, 5)
    add(1, 'str_basic', {}, 'g_strings', seed, size, maxlen)
    add(2, 'str_substr', {}, 'g_substr', seed, size, maxlen, imax)
    add(1, 'str_split', {}, 'g_split', seed, size, maxlen, imax)
    add(1, 'str_maxwidth', {}, 'g_maxwidth', seed, size, maxlen)
    add(2, 'str_grep', {}, 'g_grep', seed, size, maxlen)
    add(2, 'str_subst', {}, 'g_subst', seed, size, maxlen)
    add(1, 'str_sets', {}, 'g_sets', seed, 3 if quick else 5)
    add(1, 'str_findfirst', {}, 'g_findfirst', seed, 3 if quick else 5)
    # --- numbers ---------------------------------------------------------------------------------------
    mmax, exps = (20, (-2, -1, 0, 1)) if quick else (50, (-3, -2, -1, 0, 1, 2))
    add(1, 'num_unary', {}, 'g_unary', mmax, exps)
    add(1, 'num_round', {'type': 'decimal'}, 'g_round', 'decimal', mmax, exps)
    add(1, 'num_round', {'type': 'int'}, 'g_round', 'int', mmax, exps)
    add(1, 'num_round_const', {'type': 'decimal'}, 'g_round_const', 'decimal')
    add(1, 'num_round_const', {'type': 'int'}, 'g_round_const', 'int')
    nparts = 1 if quick else 12
    for part in range(nparts):
        add(4, 'num_safediv', {'type': 'decimal'}, 'g_safediv', 'decimal', mmax, exps, part, nparts)
    add(1, 'num_safediv', {'type': 'int'}, 'g_safediv', 'int', mmax, exps, 0, 1)
    # --- casts -----------------------------------------------------------------------------------------
    for func in CASTS:
        for coltype in list(COLTYPES) + ['const']:
            add(0.2, 'cast', {'seed': seed, 'func': func, 'coltype': coltype}, 'g_cast', seed, coltype)
    add(0.5, 'cast_ymd', {}, 'g_ymd')
    order = sorted(range(len(T)), key=lambda i: (-T[i][0], i))
    return [T[i] for i in order]


# =====================================================================================================
# Driver
# =====================================================================================================



PER_SECTION = ('argument_rows', 'cells', 'queries', 'nontrivial_cells', 'null_results', 'law_checks')


def _shard(shard, nshards, tier, seed):
    tasks = build_tasks(tier, seed)
    if len(tasks) != nshards:
        raise AssertionError('harness: task list is not deterministic')
    _, section, params, gen, args = tasks[shard]
    rows = GEN[gen](*args)
    acc = Acc()
    SECTIONS[section](acc, rows, params)
    for k in PER_SECTION:
        if acc.n[k]:
            acc.count(f'{section}.{k}', acc.n[k])
    acc.count('tasks')
    acc.add('sections', section)
    if acc.samples:
        acc.add('sample:' + section, json.dumps(jsonable(acc.samples[0]), sort_keys=True, default=repr))
    acc.samples = []
    return acc


def replay(case):
    acc = Acc()
    SECTIONS[case['section']](acc, [tuple(r) for r in unjson(case['rows'])], unjson(case['params']))
    return acc.violations


def run(ctx):
    tasks = build_tasks(ctx.tier, ctx.seed)
    total = run_shards(_shard, ctx.jobs, ctx.tier, ctx.seed, nshards=len(tasks))
    n = total.n
    sections = sorted(total.sets['sections'])
    samples = []
    for sname in sections:
        s = total.sets.get('sample:' + sname)
        if s:
            samples.append(json.loads(min(s)))
    # spread the (capped) sample list over the families
    pick = [x for x in samples if x['section'] in ('trunc', 'bin_month', 'addsub', 'interval', 'acct_parts', 'acct_possign', 'str_substr',
                                                   'str_maxwidth', 'str_grep', 'num_safediv', 'cast', 'parts')]
    outcomes = {k[4:]: (len(v) if len(v) < OUTCOME_CAP else f'>={OUTCOME_CAP}') for k, v in sorted(total.sets.items()) if k.startswith('out:')}
    per_section = {s: {k: n[f'{s}.{k}'] for k in PER_SECTION if n[f'{s}.{k}']} for s in sections}
    skipped = n['cells_unevaluated_after_crash_cap']
    quick = ctx.quick
    cov = {
        'states': n['argument_rows'],
        'transitions': n['cells'],
        'traces_validated_against_impl': n['queries'],
        'evaluations': n['law_checks'],
        'distinct_nontrivial': n['nontrivial_cells'],
        'rule': 'bounded-exhaustive: every argument tuple of the stated domains is a row of a harness table and every function column is '
                'evaluated through Connection.execute(AST). states = distinct argument rows (section, parameters, row; distinctness asserted '
                'per table); transitions = result cells produced by the implementation and compared with the reference; evaluations = '
                'individual law/expectation checks on those cells; traces = statements executed; distinct_nontrivial = cells whose result is '
                'not NULL and differs from the principal argument (the function did something), distinct because rows and columns are',
        'exhaustive': skipped == 0,
        'caps_hit': [] if skipped == 0 else [f'{skipped} cells not evaluated after {CRASH_CAP} crashing rows were located in one column'],
        'samples': pick or samples,
        'tasks': n['tasks'],
        'per_section': per_section,
        'distinct_outcomes_per_function': outcomes,
        'null_results': n['null_results'],
        'cells_raised': n['cells_raised'],
        'violating_cases': n['violating_cases'],
        'reference_selftest_comparisons': n['reference_selftest_comparisons'],
        'non_vacuity': {k: n[k] for k in sorted(n) if k.split('_')[0] in (
            'trunc', 'addsub', 'bin', 'interval', 'interval2', 'root', 'parent', 'sortkey', 'possign', 'substr', 'maxwidth', 'subst', 'findfirst',
            'round', 'safediv', 'cast') and '.' not in k},
        'bounds': {
            'dates': f'{LO}..{HI} complete ({HI.toordinal() - LO.toordinal() + 1} dates) for date_trunc (7 units), date_part (13 fields), '
                     'extraction functions and day-stride date_bin',
            'date_add_n': '-400..400 on 1st/2nd/28th/last-1/last of every month of ' + ('8 boundary years' if quick else 'every year y in 1900..2100 with y % 4 in (0, 3)'),
            'date_bin_day_strides': list(DAY_STRIDES),
            'date_bin_month_strides': [t for _, t in MONTH_STRIDES],
            'date_bin_origins': [str(o) for o in origins(ctx.seed)],
            'date_bin_month_window_years': 5 if quick else 30,
            'interval_texts': len(interval_texts()),
            'account_components': list(COMPONENT_SETS[ctx.seed % len(COMPONENT_SETS)][:3 if quick else 4]),
            'account_depth': '1..5 components, 5 root types, default and renamed root names',
            'string_alphabet': alphabet(ctx.seed, 4 if quick else 5),
            'string_max_length': 3 if quick else 4,
            'index_arguments': '-4..4' if quick else '-5..5',
            'maxwidth_widths': '5..18',
            'regex_patterns': patterns(alphabet(ctx.seed, 4)),
            'decimals': '|m| <= 20, e in -2..1' if quick else '|m| <= 50, e in -3..2',
            'round_digits': [-1, 0, 1, 2],
            'cast_values': len(cast_values(ctx.seed)),
            'cast_column_types': list(COLTYPES) + ['const'],
        },
    }
    return Result(cov, total.violations, ASSUMPTIONS)
