"""C02 -- Aggregation: groups partition rows, aggregates fold each group, HAVING filters.

Technique: bounded-exhaustive exploration (E-enum) of statements x tables on the real compiler and
executor against the reference interpreter ``vt.ref.select``.

Tables     ALL row sequences of length <= L over the row alphabet {k in NULL,'a','b'} x {v in NULL, zero/empty, v1, v2}
           (12 letters: 1885 tables for L <= 3, 22621 for L <= 4), and over {k} x {m in 1,2} x {v}
           (18 letters) for the two-key statements; the value column typed int, Decimal, str, date, bool.
           This contains empty tables, NULL groups, groups interleaved in source order, leading and
           trailing NULLs (first/last), duplicates.
Statements key forms {GROUP BY column / alias / 1-based index / hidden key / implicit / none / key
           expression (selected, aliased, hidden) / key not first / repeated key / two keys in both
           orders / one of two keys hidden} x aggregate lists {all aggregates at once, each alone}
           x WHERE {none, predicate, always false} x HAVING {none, count(*) > 1, sum(v) > 1, NULL-valued,
           max(v) IS NULL}; arithmetic over aggregates and constants as targets.
Oracle     vt.ref.select (partition in order of first appearance, NULL an ordinary key, folds, HAVING),
           plus two model-free differentials: the group-wise count(*) / count(v) / sum(v) add up to the
           ungrouped totals; an empty selection yields no row.
Sweep 2    every table kind of a Beancount-backed connection x every ordered pair of distinct hashable
           columns (c1, c2):  SELECT count(*) GROUP BY c1, c2  /  SELECT c1 AS a, count(*) GROUP BY a, c2
           must equal the partition of the rows of SELECT c1, c2;  SELECT c1, count(*) GROUP BY c2 must
           be rejected (c1 is not covered by the GROUP BY clause).
Scope      sum(bool): the property's "type's zero" is ambiguous (False vs 0): compared by numeric value.
"""
import datetime
import decimal
import itertools

import beanquery
from beanquery.parser import ast
from beanquery import tables as bq_tables
from beanquery.query_compile import EvalColumn as qc_EvalColumn

from ..harness import HTable, connect, select, F, C, col, crash_fingerprint, typed
from ..par import Acc, run_shards, mine
from ..ref import select as refselect
from ..ref.expr import RefError
from ..runner import Result, jsonable, unjson
from .. import astjson

LEVEL = 'model_checking'
D = decimal.Decimal
A = ast

VTYPES = {
    'int': (int, [None, 0, 1, 2]),
    'decimal': (D, [None, D('0.00'), D('1.5'), D('2')]),
    'str': (str, [None, '', 'a', 'b']),
    'date': (datetime.date, [None, datetime.date(2020, 1, 31), datetime.date(2020, 2, 1)]),
    'bool': (bool, [None, True, False]),
}
KVALS = [None, 'a', 'b']
MVALS = [1, 2]


def seed_values(vt, seed):
    """Boundary values (NULL, zero / empty string: falsy values are where `x or default` shortcuts go wrong)
    are always present; the seed rotates the ordinary ones."""
    t, vals = VTYPES[vt]
    if vt == 'int':
        pool = [(1, 2), (2, 7), (-3, 1), (5, 12)]
        a, b = pool[seed % len(pool)]
        return t, [None, 0, a, b]
    if vt == 'decimal':
        pool = [(D('1.5'), D('2')), (D('0.50'), D('2.25')), (D('-1.5'), D('7.125'))]
        a, b = pool[seed % len(pool)]
        return t, [None, D('0.00'), a, b]
    return t, vals


def tables_1key(L, vt, seed):
    t, vvals = seed_values(vt, seed)
    alpha = list(itertools.product(KVALS, vvals))
    for n in range(0, L + 1):
        for rows in itertools.product(alpha, repeat=n):
            yield [('k', str), ('v', t)], list(rows)


def tables_2key(L, vt, seed):
    t, vvals = seed_values(vt, seed)
    vvals = [v for v in vvals if v is None or v]      # 18-letter alphabet: the zero is covered by the one-key tables
    alpha = list(itertools.product(KVALS, MVALS, vvals))
    for n in range(0, L + 1):
        for rows in itertools.product(alpha, repeat=n):
            yield [('k', str), ('m', int), ('v', t)], list(rows)


# ---- statements ---------------------------------------------------------------------------

def agg_menu(vt):
    v, k = col('v'), col('k')
    m = [
        ('cnt', F('count', A.Asterisk())), ('cv', F('count', v)), ('ck', F('count', k)),
        ('mn', F('min', v)), ('mx', F('max', v)), ('fi', F('first', v)), ('la', F('last', v)),
        ('fk', F('first', k)), ('lk', F('last', k)), ('mnk', F('min', k)), ('mxk', F('max', k)),
    ]
    if vt in ('int', 'decimal', 'bool'):
        m.append(('sv', F('sum', v)))
    if vt in ('int', 'decimal'):
        m += [
            ('ar', A.Add(F('sum', v), F('count', A.Asterisk()))),
            ('df', A.Sub(F('max', v), F('min', v))),
            ('ng', A.Neg(F('sum', v))),
            ('dv', A.Div(F('sum', v), F('count', v))),
            ('x2', A.Mul(F('sum', v), C(2))),
            ('cmp', A.Greater(F('sum', v), F('count', v))),
        ]
    return m


def where_menu(vt):
    v = col('v')
    m = [('none', None), ('false', A.Equal(C(1), C(2))), ('k~a', A.Match(col('k'), C('a'))), ('vnotnull', A.IsNotNull(v))]
    return m


def having_menu(vt):
    v = col('v')
    m = [('none', None), ('cnt>1', A.Greater(F('count', A.Asterisk()), C(1))), ('mxnull', A.IsNull(F('max', v)))]
    if vt != 'bool':
        m.append(('min=max', A.Equal(F('min', v), F('max', v))))     # NULL-valued for all-NULL groups
    if vt in ('int', 'decimal'):
        m.append(('sum>1', A.Greater(F('sum', v), C(1))))
    return m


def shapes_1key():
    """(name, fn(aggtargets, having) -> Select).  aggtargets: list of (expr, alias)."""
    k = col('k')
    up = F('upper', k)

    def mk(pre, gb, post=()):
        def build(aggs, having):
            targets = list(pre) + list(aggs) + list(post)
            group_by = A.GroupBy(list(gb), having) if gb is not None else None
            if gb is None and having is not None:
                return None
            return select(targets, from_='t', group_by=group_by)
        return build
    return [
        ('explicit', mk([(k, None)], [k])),
        ('alias', mk([(k, 'kk')], [col('kk')])),
        ('index', mk([(k, None)], [1])),
        ('hidden', mk([], [k])),
        ('implicit', mk([(k, None)], None)),
        ('nogroup', mk([], None)),
        ('expr-selected', mk([(up, 'u')], [F('upper', col('k'))])),
        ('expr-alias', mk([(up, 'u')], [col('u')])),
        # the output name of a key expression coincides with a table column: GROUP BY k means the target named k
        ('expr-alias-shadows-column', mk([(up, 'k')], [col('k')])),
        ('expr-hidden', mk([], [F('upper', col('k'))])),
        ('key-last', mk([], [k], post=[(k, None)])),
        ('repeated', mk([(k, None)], [k, col('k')])),
        ('index+name', mk([(k, 'kk')], [1, col('kk')])),
        ('const-target', mk([(k, None), (C(7), 'seven')], None)),
        ('isnull-key', mk([(A.IsNull(k), 'kn')], [col('kn')])),
    ]


def shapes_2key():
    k, m = col('k'), col('m')
    m2 = A.Mod(col('m'), C(2))

    def mk(pre, gb):
        def build(aggs, having):
            group_by = A.GroupBy(list(gb), having) if gb is not None else None
            if gb is None and having is not None:
                return None
            return select(list(pre) + list(aggs), from_='t', group_by=group_by)
        return build
    return [
        ('km', mk([(k, None), (m, None)], [k, m])),
        ('mk', mk([(k, None), (m, None)], [m, k])),
        ('km-index', mk([(k, None), (m, None)], [2, 1])),
        ('km-implicit', mk([(k, None), (m, None)], None)),
        ('k-visible-m-hidden', mk([(k, None)], [k, m])),
        ('m-visible-k-hidden', mk([(m, None)], [m, k])),
        ('both-hidden', mk([], [k, m])),
        ('dup-index-then-keys', mk([(k, None), (m, None)], [1, col('k'), col('m')])),
        ('dup-name-then-index', mk([(k, None), (m, None)], [col('k'), 1, 2])),
        ('dup-second-key', mk([(k, None), (m, None)], [k, m, 2])),
        ('dup-alias-then-key', mk([(k, 'kk'), (m, None)], [col('kk'), 1, m])),
        ('k-and-mexpr', mk([(k, None), (m2, 'mm')], [k, col('mm')])),
        ('mexpr-hidden', mk([(k, None)], [k, A.Mod(col('m'), C(2))])),
    ]


def statements(vt, twokey):
    aggs = agg_menu(vt)
    allaggs = [(e, n) for n, e in aggs]
    shapes = shapes_2key() if twokey else shapes_1key()
    out = []
    for sname, build in shapes:
        for wn, w in where_menu(vt):
            for hn, h in having_menu(vt):
                s = build(allaggs, h)
                if s is None:
                    continue
                s = A.Select(s.targets, s.from_clause, w, s.group_by, None, None, None, None)
                out.append((f'{sname}|all|{wn}|{hn}', s))
        for n, e in aggs:
            s = build([(e, n)], None)
            out.append((f'{sname}|{n}|none|none', s))
        # grouping WITHOUT any aggregate (one row per group, hidden keys included)
        s0 = build([], None)
        if s0 is not None and s0.group_by is not None and s0.targets:
            out.append((f'{sname}|noagg|none|none', s0))
            out.append((f'{sname}|noagg-distinct|none|none', A.Select(s0.targets, s0.from_clause, None, s0.group_by, None, None, None, True)))
        # LIMIT without ORDER BY on a grouped query: it cuts the groups that PASS the HAVING filter, in order of first appearance
        if sname in ('explicit', 'hidden', 'km'):
            for hn, h in having_menu(vt):
                for limit in (1, 2):
                    s = build(allaggs[:2], h)
                    s = A.Select(s.targets, s.from_clause, None, s.group_by, None, None, limit, None)
                    out.append((f'{sname}|all|none|{hn}+limit{limit}', s))
    return out


# ---- comparison -----------------------------------------------------------------------------

def loose(v):
    """(type, value) except that bool/int are merged (sum(bool), see Scope)."""
    if isinstance(v, bool):
        return ('int', int(v))
    return typed(v)


def run_one(conn, cols, rows, sname, stmt, vt, acc, case_extra):
    coltypes = {n: t for n, t in cols}
    acc.count('executions')
    try:
        names, exp, info = refselect.execute(stmt, [n for n, _ in cols], rows, coltypes)
    except RefError:
        acc.count('ref_unsupported')
        return
    try:
        cur = conn.execute(stmt)
        got = cur.fetchall()
    except Exception as e:
        acc.violation(f'crash:{crash_fingerprint(e)}', f'{sname} on {rows!r} raised {type(e).__name__}: {e}',
                      dict(case_extra, shape=sname, rows=jsonable(rows)))
        return
    acc.count('rows_compared', len(exp))
    cmp = loose if vt == 'bool' else typed
    if [tuple(map(cmp, r)) for r in got] != [tuple(map(cmp, r)) for r in exp]:
        shape, aggn, wn, hn = sname.split('|')
        fp = f'agg:{shape}|{aggn if aggn != "all" else "*"}|{"where" if wn != "none" else ""}|{"having" if hn != "none" else ""}'
        acc.violation(fp, f'{show(stmt)} on rows {rows!r}: got {got!r}, reference {exp!r}', dict(case_extra, shape=sname, rows=jsonable(rows)))
        return
    acc.count('groups', info.get('groups', 0))
    acc.count('null_key_groups', info.get('null_key_groups', 0))
    acc.count('having_rejected', info.get('having_rejected', 0))
    if info.get('groups', 0) >= 2:
        acc.count('multi_group_results')
    acc.add('outcomes', repr(exp)[:60])


def show(node):
    try:
        from ..unparse import unparse
        return unparse(node)
    except Exception:
        return repr(node)


def differential(conn, cols, rows, vt, acc, twokey):
    """Model-free: group-wise counts and sums add up to the ungrouped totals; empty selection -> no row."""
    k = col('k')
    v = col('v')
    aggs = [(F('count', A.Asterisk()), 'c'), (F('count', v), 'cv')]
    if vt in ('int', 'decimal'):
        aggs.append((F('sum', v), 's'))
    keys = [k, col('m')] if twokey else [k]
    try:
        g = conn.execute(select(aggs, from_='t', group_by=A.GroupBy(keys, None))).fetchall()
        u = conn.execute(select(aggs, from_='t')).fetchall()
    except Exception as e:
        acc.violation(f'crash:{crash_fingerprint(e)}', f'differential on {rows!r} raised {e!r}', {'kind': 'diff', 'vt': vt, 'twokey': twokey, 'rows': jsonable(rows)})
        return
    acc.count('differentials')
    if not rows:
        if g or u:
            acc.violation('diff:empty-selection', f'empty table: grouped {g!r}, ungrouped {u!r}; expected no row', {'kind': 'diff', 'vt': vt, 'twokey': twokey, 'rows': []})
        return
    if len(u) != 1:
        acc.violation('diff:ungrouped-rows', f'ungrouped aggregate returned {u!r}', {'kind': 'diff', 'vt': vt, 'twokey': twokey, 'rows': jsonable(rows)})
        return
    for i in range(len(aggs)):
        if u[0][i] is None or any(r[i] is None for r in g):
            acc.violation('diff:null-count-or-sum', f'rows {rows!r}: count / sum is NULL: group-wise {[r[i] for r in g]!r}, ungrouped {u[0][i]!r} (count of nothing and sum of nothing are 0)',
                          {'kind': 'diff', 'vt': vt, 'twokey': twokey, 'rows': jsonable(rows)})
            continue
        if sum(r[i] for r in g) != u[0][i]:
            acc.violation('diff:sum-of-groups', f'rows {rows!r}: group-wise {[r[i] for r in g]!r} does not add up to {u[0][i]!r}',
                          {'kind': 'diff', 'vt': vt, 'twokey': twokey, 'rows': jsonable(rows)})


def sweep1(shard, nshards, plan, seed):
    acc = Acc()
    idx = 0
    for vt, twokey, L in plan:
        stmts = statements(vt, twokey)
        gen = tables_2key(L, vt, seed) if twokey else tables_1key(L, vt, seed)
        for cols, rows in gen:
            idx += 1
            if not mine(idx, shard, nshards):
                continue
            table = HTable(cols, rows)
            conn = connect(t=table, postings=table)
            acc.count('tables')
            for sname, stmt in stmts:
                run_one(conn, cols, rows, sname, stmt, vt, acc, {'kind': 'stmt', 'vt': vt, 'twokey': twokey, 'seed': seed})
            differential(conn, cols, rows, vt, acc, twokey)
            if idx % 5000 == 1:
                acc.sample({'table': jsonable(rows), 'statement': show(stmts[len(stmts) // 3][1])})
        acc.add('statement_shapes', (vt, twokey, len(stmts)))
    return acc


# ---- tables whose ROW OBJECTS are falsy (the unnamed one-row table; scalar rows ending in 0) ---------------

class _ScalarCol(qc_EvalColumn):
    __slots__ = ()

    def __call__(self, row):
        return row


class _ScalarTable(bq_tables.Table):
    def __init__(self, rows):
        self.name = 'z'
        self.columns = {'x': _ScalarCol(int)}
        self.rows = list(rows)

    def __iter__(self):
        return iter(self.rows)


class _SharedClassCol(qc_EvalColumn):
    # like beanquery/tests/tables.py: the accessor lives in the instance, NOT in __slots__ (so two such columns of one
    # datatype compare equal as nodes)
    def __init__(self, func, datatype):
        super().__init__(datatype)
        self.func = func

    def __call__(self, row):
        return self.func(row)


class _SharedClassTable(bq_tables.Table):
    def __init__(self, rows):
        self.name = 'w'
        self.columns = {'k': _SharedClassCol(lambda r: r[0], str), 'x': _SharedClassCol(lambda r: r[1], int), 'y': _SharedClassCol(lambda r: r[2], int)}
        self.rows = list(rows)

    def __iter__(self):
        return iter(self.rows)


def check_shared_class_columns(acc):
    rows = [('a', 1, 10), ('b', 2, 20), ('a', 3, 30), ('b', None, 40), ('c', 5, None)]
    conn = connect(w=_SharedClassTable(rows), postings=_SharedClassTable(rows))
    x, y, k = col('x'), col('y'), col('k')

    def fold(fn, i, key=None):
        vals = [r[i] for r in rows if r[i] is not None and (key is None or r[0] == key)]
        return fn(vals) if vals else (0 if fn is sum else None)
    keys = list(dict.fromkeys(r[0] for r in rows))
    stmts = [
        ('sum-sum', select([(F('sum', x), 'sx'), (F('sum', y), 'sy'), (F('min', x), 'mx'), (F('min', y), 'my')], from_='w'),
         [(fold(sum, 1), fold(sum, 2), fold(min, 1), fold(min, 2))]),
        ('grouped', select([(k, None), (F('sum', x), 'sx'), (F('sum', y), 'sy'), (F('max', y), 'my'), (F('max', x), 'mx')], from_='w', group_by=A.GroupBy([k], None)),
         [(kk, fold(sum, 1, kk), fold(sum, 2, kk), fold(max, 2, kk), fold(max, 1, kk)) for kk in keys]),
        ('arith', select([(A.Sub(F('sum', y), F('sum', x)), 'd')], from_='w'), [(fold(sum, 2) - fold(sum, 1),)]),
        ('having', select([(k, None), (F('sum', x), 'sx')], from_='w', group_by=A.GroupBy([k], A.Greater(F('sum', y), C(35)))),
         [(kk, fold(sum, 1, kk)) for kk in keys if fold(sum, 2, kk) > 35]),
    ]
    for tag, stmt, exp in stmts:
        acc.count('executions')
        acc.count('shared_class_column_statements')
        try:
            got = conn.execute(stmt).fetchall()
        except Exception as e:
            acc.violation(f'crash:{crash_fingerprint(e)}', f'{show(stmt)} raised {type(e).__name__}: {e}', {'kind': 'shared', 'tag': tag})
            continue
        if [tuple(map(typed, r)) for r in got] != [tuple(map(typed, r)) for r in exp]:
            acc.violation(f'agg:same-aggregate-over-two-columns|{tag}', f'{show(stmt)} on {rows!r}: got {got!r}, expected {exp!r}', {'kind': 'shared', 'tag': tag})


def check_falsy_rows(acc, only=None):
    x = col('x')
    cnt, sm, mx = F('count', A.Asterisk()), F('sum', x), F('max', x)
    for rows in ([0], [-2, -1, 0], [2, 1, 0], [0, 0], [0, 1], [1]):
        if only is not None and rows != only:
            continue
        conn = connect(z=_ScalarTable(rows), postings=_ScalarTable(rows))
        par = lambda v: v % 2
        stmts = [
            ('ungrouped', select([(cnt, 'c'), (sm, 's'), (mx, 'm')], from_='z'), [(len(rows), sum(rows), max(rows))]),
            ('grouped', select([(A.Mod(x, C(2)), 'p'), (cnt, 'c'), (sm, 's')], from_='z', group_by=A.GroupBy([col('p')], None)),
             [(p, len([r for r in rows if par(r) == p]), sum(r for r in rows if par(r) == p)) for p in dict.fromkeys(par(r) for r in rows)]),
            ('where', select([(cnt, 'c')], from_='z', where=A.GreaterEq(x, C(0))), [(len([r for r in rows if r >= 0]),)] if [r for r in rows if r >= 0] else []),
        ]
        for tag, stmt, exp in stmts:
            acc.count('executions')
            acc.count('falsy_row_statements')
            try:
                got = conn.execute(stmt).fetchall()
            except Exception as e:
                acc.violation(f'crash:{crash_fingerprint(e)}', f'{show(stmt)} on scalar rows {rows!r} raised {type(e).__name__}: {e}', {'kind': 'falsy', 'rows': rows})
                continue
            if [tuple(map(typed, r)) for r in got] != [tuple(map(typed, r)) for r in exp]:
                acc.violation(f'agg:falsy-row-objects|{tag}', f'{show(stmt)} on a table whose rows are the integers {rows!r}: got {got!r}, expected {exp!r}', {'kind': 'falsy', 'rows': rows})
    # the unnamed one-row table (its single row is None)
    conn = connect(z=_ScalarTable([1]))
    conn.tables[''] = bq_tables.NullTable()
    for tag, stmt, exp in [('null-table', select([(cnt, 'c'), (F('sum', C(3)), 's')], from_=A.Table('')), [(1, 3)]),
                           ('null-table-grouped', select([(C(7), 'k'), (cnt, 'c')], from_=A.Table(''), group_by=A.GroupBy([1], None)), [(7, 1)])]:
        if only is not None:
            break
        acc.count('executions')
        acc.count('falsy_row_statements')
        try:
            got = conn.execute(stmt).fetchall()
        except Exception as e:
            acc.violation(f'crash:{crash_fingerprint(e)}', f'{show(stmt)} raised {type(e).__name__}: {e}', {'kind': 'falsy', 'rows': None})
            continue
        if [tuple(map(typed, r)) for r in got] != [tuple(map(typed, r)) for r in exp]:
            acc.violation(f'agg:falsy-row-objects|{tag}', f'{show(stmt)}: got {got!r}, expected {exp!r}', {'kind': 'falsy', 'rows': None})


# ---- sweep 2: every table kind x every ordered pair of hashable columns -------------------------

def ledger_conn():
    from ..sample_ledger import connect as lconnect
    return lconnect()


def kind_tables(conn):
    return [name for name in conn.tables if name]


def hashable_columns(table):
    import collections.abc
    out = []
    for name, c in table.columns.items():
        if isinstance(c.dtype, type) and issubclass(c.dtype, collections.abc.Hashable) and name not in ('balance',):
            out.append(name)
    return out


def hkey(v):
    return refselect._hashable(v) if not isinstance(v, (tuple,)) else ('t', v)


def sweep2(shard, nshards):
    acc = Acc()
    conn = ledger_conn()
    idx = 0
    for tname in sorted(kind_tables(conn)):
        table = conn.tables[tname]
        cols = hashable_columns(table)
        for c1, c2 in itertools.permutations(cols, 2):
            idx += 1
            if not mine(idx, shard, nshards):
                continue
            sweep2_pair(conn, tname, c1, c2, acc)
        for c1 in cols:
            idx += 1
            if mine(idx, shard, nshards):
                sweep2_single(conn, tname, c1, acc)
    return acc


def sweep2_single(conn, tname, c1, acc):
    """ONE visible grouping key of every hashable column type (named tuples such as Amount / Position included): the key
    cell holds the column's value, one row per distinct value in order of first appearance."""
    case = {'kind': 'single', 'table': tname, 'c1': c1}
    frm = A.Table(tname)
    try:
        base = [r[0] for r in conn.execute(select([(col(c1), 'a')], from_=frm)).fetchall()]
        groups = {}
        for a in base:
            groups.setdefault(hkey(a), [a, 0])[1] += 1
    except TypeError:
        return
    except Exception as e:
        acc.violation(f'crash:{crash_fingerprint(e)}', f'SELECT {c1} FROM #{tname} raised {e!r}', case)
        return
    exp = [(g[0], g[1]) for g in groups.values()]
    for tag, stmt in (('explicit', select([(col(c1), 'a'), (F('count', A.Asterisk()), 'n')], from_=frm, group_by=A.GroupBy([col('a')], None))),
                      ('implicit', select([(col(c1), 'a'), (F('count', A.Asterisk()), 'n')], from_=frm))):
        acc.count('executions')
        acc.count('single_key_statements')
        try:
            got = conn.execute(stmt).fetchall()
        except Exception as e:
            acc.violation(f'crash:{crash_fingerprint(e)}', f'{show(stmt)} raised {e!r}', case)
            continue
        if [(type(a).__name__, hkey(a), n) for a, n in got] != [(type(a).__name__, hkey(a), n) for a, n in exp]:
            acc.violation(f'single-key:{tag}', f'{show(stmt)}: got {got[:4]!r}, the partition of SELECT {c1} gives {exp[:4]!r}', case)


def sweep2_pair(conn, tname, c1, c2, acc):
    case = {'kind': 'pair', 'table': tname, 'c1': c1, 'c2': c2}
    frm = A.Table(tname)
    try:
        base = conn.execute(select([(col(c1), 'a'), (col(c2), 'b')], from_=frm)).fetchall()
    except Exception as e:
        acc.violation(f'crash:{crash_fingerprint(e)}', f'SELECT {c1}, {c2} FROM #{tname} raised {e!r}', case)
        return
    try:
        groups = {}
        for a, b in base:
            groups.setdefault((hkey(a), hkey(b)), [a, b, 0])[2] += 1
    except TypeError:
        acc.count('pairs_unhashable_values')
        return
    exp_counts = [g[2] for g in groups.values()]
    exp_rows = [(g[0], g[2]) for g in groups.values()]
    acc.count('column_pairs')
    acc.count('executions', 3)
    if len(groups) >= 2:
        acc.count('pairs_with_several_groups')
    # (a) hidden keys
    try:
        got = conn.execute(select([(F('count', A.Asterisk()), 'n')], from_=frm, group_by=A.GroupBy([col(c1), col(c2)], None))).fetchall()
        if [r[0] for r in got] != exp_counts:
            acc.violation('pair:hidden-keys', f'SELECT count(*) FROM #{tname} GROUP BY {c1}, {c2}: got {[r[0] for r in got]!r}, partition of SELECT {c1}, {c2} gives {exp_counts!r}', case)
    except Exception as e:
        acc.violation(f'crash:{crash_fingerprint(e)}', f'SELECT count(*) FROM #{tname} GROUP BY {c1}, {c2} raised {e!r}', case)
    # (b) alias + hidden
    try:
        got = conn.execute(select([(col(c1), 'a'), (F('count', A.Asterisk()), 'n')], from_=frm, group_by=A.GroupBy([col('a'), col(c2)], None))).fetchall()
        if [(hkey(r[0]), r[1]) for r in got] != [(hkey(a), n) for a, n in exp_rows]:
            acc.violation('pair:alias+hidden', f'SELECT {c1} AS a, count(*) FROM #{tname} GROUP BY a, {c2}: got {got[:5]!r}, expected {exp_rows[:5]!r}', case)
    except Exception as e:
        acc.violation(f'crash:{crash_fingerprint(e)}', f'SELECT {c1} AS a, count(*) FROM #{tname} GROUP BY a, {c2} raised {e!r}', case)
    # (c) uncovered target must be rejected
    try:
        conn.execute(select([(col(c1), None), (F('count', A.Asterisk()), 'n')], from_=frm, group_by=A.GroupBy([col(c2)], None)))
        acc.violation('pair:uncovered-accepted', f'SELECT {c1}, count(*) FROM #{tname} GROUP BY {c2} was accepted although {c1} is not covered by GROUP BY', case)
    except beanquery.CompilationError:
        acc.count('uncovered_rejected')
    except Exception as e:
        acc.violation(f'crash:{crash_fingerprint(e)}', f'SELECT {c1}, count(*) FROM #{tname} GROUP BY {c2} raised {e!r}', case)


def replay(c):
    acc = Acc()
    if c['kind'] == 'pair':
        sweep2_pair(ledger_conn(), c['table'], c['c1'], c['c2'], acc)
        return acc.violations
    if c['kind'] == 'shared':
        check_shared_class_columns(acc)
        return [v for v in acc.violations if v.case.get('tag') == c['tag']]
    if c['kind'] == 'single':
        sweep2_single(ledger_conn(), c['table'], c['c1'], acc)
        return acc.violations
    if c['kind'] == 'falsy':
        check_falsy_rows(acc, only=c['rows'])
        return acc.violations
    rows = [tuple(r) for r in unjson(c['rows'])]
    vt, twokey = c['vt'], c['twokey']
    t, _ = VTYPES[vt]
    cols = [('k', str), ('m', int), ('v', t)] if twokey else [('k', str), ('v', t)]
    table = HTable(cols, rows)
    conn = connect(t=table, postings=table)
    if c['kind'] == 'diff':
        differential(conn, cols, rows, vt, acc, twokey)
    else:
        for sname, stmt in statements(vt, twokey):
            if sname == c['shape']:
                run_one(conn, cols, rows, sname, stmt, vt, acc, {'kind': 'stmt', 'vt': vt, 'twokey': twokey, 'seed': c.get('seed', 0)})
    return acc.violations


def run(ctx):
    if ctx.quick:
        plan = [('int', False, 3), ('decimal', False, 2), ('str', False, 2), ('date', False, 2), ('bool', False, 2), ('int', True, 2)]
    else:
        plan = [('int', False, 4), ('decimal', False, 3), ('str', False, 3), ('date', False, 3), ('bool', False, 3), ('int', True, 3), ('decimal', True, 2)]
    acc = run_shards(sweep1, ctx.jobs, plan, ctx.seed)
    acc2 = run_shards(sweep2, ctx.jobs)
    check_falsy_rows(acc2)
    check_shared_class_columns(acc2)
    n = acc.n
    viol = acc.violations + acc2.violations
    cov = {
        'states': n['executions'] + acc2.n['executions'],
        'transitions': n['rows_compared'] + n['differentials'] + acc2.n['column_pairs'],
        'traces_validated_against_impl': n['executions'] + acc2.n['executions'],
        'evaluations': n['executions'] + acc2.n['executions'],
        'distinct_nontrivial': len(acc.sets['outcomes']),
        'rule': 'a case = one (statement, table) execution compared row by row with vt.ref.select; distinct_nontrivial = distinct expected results (first 60 chars of repr)',
        'exhaustive': True,
        'bound': {'plan (value type, two keys?, max rows L: ALL row sequences of length <= L)': [list(p) for p in plan]},
        'tables': n['tables'], 'statement_shapes': sorted(map(list, acc.sets['statement_shapes'])),
        'groups_produced': n['groups'], 'null_key_groups': n['null_key_groups'], 'having_rejected_groups': n['having_rejected'],
        'results_with_several_groups': n['multi_group_results'], 'differentials': n['differentials'],
        'table_kind_sweep': {'column_pairs': acc2.n['column_pairs'], 'pairs_with_several_groups': acc2.n['pairs_with_several_groups'],
                             'uncovered_target_rejected': acc2.n['uncovered_rejected'], 'pairs_unhashable_values': acc2.n['pairs_unhashable_values']},
        'reference_unsupported': n['ref_unsupported'],
        'samples': acc.samples,
    }
    return Result(cov, viol, assumptions=['reference interpreter vt/ref/select.py written from the property text',
                                          'sum(bool) compared by numeric value (type of the zero is ambiguous)',
                                          'sweep 2 trusts the non-aggregate SELECT c1, c2 (property C01/C11) for the rows to partition'])
