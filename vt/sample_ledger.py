"""A fixed ledger with every directive type (used by the table-kind sweeps of C02/C03/C04/C07)."""
import functools

TEXT = '''
option "title" "Sample"
option "operating_currency" "USD"

2019-01-01 open Assets:Cash            USD
2019-01-01 open Assets:Bank            USD,EUR
  inst: "Bank A"
2019-01-01 open Assets:Broker          HOOL,USD
2019-01-01 open Liabilities:Card       USD
2019-01-01 open Equity:Opening
2019-01-01 open Income:Job
2019-01-01 open Expenses:Food
2019-01-01 open Expenses:Rent
2019-06-30 close Liabilities:Card

2019-01-01 commodity USD
  name: "US Dollar"
2019-01-01 commodity HOOL
  name: "Hooli"
  export: "NASDAQ:HOOL"
2019-01-02 commodity EUR

2019-01-05 * "Employer" "Salary" #income ^pay-1
  doc: "slip.pdf"
  Assets:Bank      1000.00 USD
    note: "first"
  Income:Job      -1000.00 USD

2019-01-10 * "Grocer" "Food"
  Expenses:Food      40.50 USD
  Assets:Cash       -40.50 USD

2019-01-10 ! "Grocer" "Snack" #food
  Expenses:Food       4.50 USD
  Assets:Cash        -4.50 USD

2019-02-01 * "Landlord" "Rent" #rent ^pay-1
  Expenses:Rent     500.00 USD
  Assets:Bank      -500.00 USD

2019-02-03 * "Buy stock"
  Assets:Broker       2 HOOL {100.00 USD, 2019-02-03}
  Assets:Bank      -200.00 USD

2019-02-20 * "Landlord" "Food"
  Expenses:Food      10.00 EUR @ 1.25 USD
  Assets:Bank       -12.50 USD

2019-03-01 pad Assets:Cash Equity:Opening
2019-03-02 balance Assets:Cash   100.00 USD

2019-03-05 * "Sell stock"
  Assets:Broker      -1 HOOL {100.00 USD, 2019-02-03} @ 120.00 USD
  Assets:Bank       120.00 USD
  Income:Job        -20.00 USD

2019-03-10 price HOOL  125.00 USD
2019-03-11 price EUR   1.25 USD
2019-03-12 note Assets:Bank "called the bank"
2019-03-13 event "location" "Paris"
2019-03-13 event "employer" "Hooli"
2019-03-14 document Assets:Bank "__DOCFILE__"
2019-03-15 custom "budget" Expenses:Food "monthly" 400.00 USD
2019-03-16 query "food" "SELECT date, narration WHERE account ~ 'Food'"
2019-03-17 balance Assets:Bank   407.50 USD
2019-03-18 note Assets:Cash "counted"
'''


@functools.lru_cache(maxsize=1)
def load():
    from beancount import loader
    import os
    entries, errors, options = loader.load_string(TEXT.replace('__DOCFILE__', os.path.abspath(__file__)))
    assert not errors, errors
    return entries, errors, options


def connect():
    import beanquery
    entries, errors, options = load()
    return beanquery.connect('beancount:', entries=entries, errors=errors, options=options)
