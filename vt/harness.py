"""User-registered tables for the harness ("tables with typed columns" of the properties).

A harness table is a plain ``beanquery.tables.Table`` subclass registered on a bare
``beanquery.Connection`` (``conn.tables[name] = table``) -- the public extension API that the
repository's own tests (beanquery/tests/tables.py) use.  Columns are ``EvalColumn`` subclasses that
declare ``__slots__`` so that beanquery's structural node equality distinguishes them.
"""
import datetime
import decimal

import beanquery
from beanquery import query_compile as qc
from beanquery import query_env  # noqa: F401  (fills the FUNCTIONS registry)
from beanquery import tables
from beanquery.parser import ast

D = decimal.Decimal
A = ast


class Col(qc.EvalColumn):
    __slots__ = ('idx',)

    def __init__(self, idx, dtype):
        super().__init__(dtype)
        self.idx = idx

    def __call__(self, row):
        return row[self.idx]


class HTable(tables.Table):
    """cols: list of (name, dtype); rows: list of tuples."""

    def __init__(self, cols, rows, name='t'):
        self.name = name
        self.cols = list(cols)
        self.columns = {n: Col(i, t) for i, (n, t) in enumerate(cols)}
        self.rows = rows
        self.scans = 0

    def __iter__(self):
        self.scans += 1
        return iter(self.rows)


class FuncCol(qc.EvalColumn):
    """Column written after the repository's own example (beanquery/tests/tables.py): no __slots__, the
    accessor kept as an instance attribute."""

    def __init__(self, func, dtype):
        super().__init__(dtype)
        self.func = func

    def __call__(self, row):
        return self.func(row)


class UTable(HTable):
    """HTable whose columns are FuncCol instances (same class and datatype for several columns)."""

    def __init__(self, cols, rows, name='t'):
        super().__init__(cols, rows, name)
        self.columns = {n: FuncCol((lambda row, i=i: row[i]), t) for i, (n, t) in enumerate(cols)}


def connect(**tabs):
    """Bare connection with harness tables.  A ``postings`` table is needed by statements without
    FROM; when not given, the first table is also registered under that name."""
    c = beanquery.Connection()
    for name, t in tabs.items():
        c.tables[name] = t
    return c


def select(targets, from_=None, where=None, group_by=None, order_by=None, pivot_by=None, limit=None, distinct=None):
    """AST constructor with keyword arguments; targets: list of (expr, name) or ast.Target."""
    if not isinstance(targets, A.Asterisk):
        targets = [t if isinstance(t, A.Target) else A.Target(t[0], t[1]) for t in targets]
    if isinstance(from_, str):
        from_ = A.Table(from_)
    return A.Select(targets, from_, where, group_by, order_by, pivot_by, limit, distinct)


def F(name, *args):
    return A.Function(name, list(args))


def C(value):
    return A.Constant(value)


def col(name):
    return A.Column(name)


def typed(v):
    """(type, value) comparison key: 1 == True == Decimal(1) must not be confused."""
    if isinstance(v, (list, tuple)):
        return (type(v).__name__, tuple(typed(i) for i in v))
    return (type(v).__name__, v)


def typed_rows(rows):
    return [tuple(typed(v) for v in r) for r in rows]


def crash_fingerprint(exc):
    """(exception class, innermost frame inside beanquery) -> identifies a crash defect."""
    import traceback
    tb = traceback.extract_tb(exc.__traceback__)
    where = None
    for fr in tb:
        if '/beanquery/' in fr.filename and '/verif/' not in fr.filename:
            where = f'{fr.filename.split("/beanquery/")[-1]}:{fr.name}'
    return f'{type(exc).__name__}@{where}'


DATE = datetime.date
