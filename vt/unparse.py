"""AST -> BQL text (the *printer* of property C06; also used by C05, C07, C09 and for replay files).

Public API
----------
``unparse(node, parens='minimal', style=0, salt=0, ends=True) -> str``
    Text of a statement (Select, Balances, Journal, Print), of an expression node, or of a clause
    node (Target, From, Table, GroupBy, OrderBy, PivotBy).  Raises ``NotExpressible`` (a
    ``ValueError``) when no BQL text denotes the AST (see "Expressible ASTs" below).
``tokens(node, parens='minimal') -> list[Tok]``
    The token sequence (``Tok(text, kind)``) before spelling; ``render(toks, style, salt)`` spells it.
``render(toks, style=0, salt=0, ends=True) -> str``   (``ends=False``: embeddable, nothing before the first / after the last token)
``expressible(node) -> bool``
``level(node) -> int``           precedence level of an expression node (the ladder below)
``count_grouping(node) -> int``  parenthesis pairs the ladder demands in the minimal print
``STYLES = (0, 1, 2, 3)``, ``PARENS = ('minimal', 'full')``
``RESERVED``                     lower-case words that must not be used as identifiers
``ast_to_json(node) / ast_from_json(obj)``   lossless JSON form of an AST (for replay files)
``same_ast(a, b)``               dataclass equality *and* equal repr (so 1 / TRUE / Decimal('1') / Decimal('1.0') differ)
``is_safe_identifier(name)``     True iff ``name`` is a lower-case identifier the grammar can read back

The module depends only on the standard library and on ``beanquery.parser.ast`` (node classes).

Precedence ladder (the oracle of C06 -- written from the property text, *not* from the grammar)
----------------------------------------------------------------------------------------------
    level 1  OR
    level 2  AND
    level 3  NOT
    level 4  < <= > >= = != IN, NOT IN, ~ !~, IS NULL, IS NOT NULL, BETWEEN     (non-associative)
    level 5  + -          (left-associative)
    level 6  * / %        (left-associative)
    level 7  unary minus
    level 8  primaries: attribute, subscript, call, constant, column, placeholder
    level 0  a sub-select (always needs its own parentheses inside an expression)

An operand is printed without parentheses iff its level is at least the minimum of its slot:

    OR argument >= 2, AND argument >= 3   (a nested same-kind boolean keeps its own node: n-ary flat lists)
    NOT operand >= 3                      (NOT NOT a needs none)
    comparison / IN / ~ both sides >= 5, IS [NOT] NULL operand >= 5, the three BETWEEN operands >= 5
    + -   left >= 5, right >= 6
    * / % left >= 6, right >= 7
    unary minus operand >= 7              (- -a needs none)
    attribute / subscript operand: must be a primary (level 8) -- parentheses are not possible there
    function arguments, targets, WHERE, HAVING, FROM expression, GROUP BY / ORDER BY expression: >= 0

``parens='minimal'`` emits exactly the parentheses demanded by that table; ``parens='full'`` wraps
*every* expression node in parentheses wherever the language has a place for them (all slots above
except attribute / subscript operands, list elements, PIVOT BY columns).

Expressible ASTs (scope of C06)
-------------------------------
* numeric constants are non-negative and finite (``-1`` reads as Neg(Constant(1))); decimals have an
  exponent <= 0 (no scientific notation in BQL) and are printed with a ``.`` so they stay decimals;
* list constants are non-empty, hold only non-NULL scalar literals;
* strings (constants, subscript keys, JOURNAL account) contain at most one kind of quote;
* identifiers are lower case (the parser lower-cases them), match ``[a-z_][a-z0-9_]*`` and are not
  ``RESERVED`` words;  table names match ``[A-Za-z_][A-Za-z0-9_]*`` or are empty (case preserved);
* And / Or have at least two arguments; a From node has an expression or one of OPEN/CLOSE/CLEAR;
  CLOSE is a date or True, CLEAR and DISTINCT are True or None; LIMIT and positional indexes are
  non-negative ints; PIVOT BY has exactly two items, each an int or a Column;
* attribute / subscript operands are primaries other than a bare sub-select;
* in GROUP BY / ORDER BY an ``int`` item is a positional index and is printed bare, an expression
  item whose text would *start with a digit* (``1 + a``, ``2020-01-01``, ``1.5``) is wrapped in
  parentheses because the grammar reads a leading integer as an index;
* a From whose expression is itself a sub-select is printed with two pairs of parentheses
  (one pair is the ``FROM (subselect)`` form).

Spelling styles
---------------
    0  plain      KEYWORDS upper, identifiers lower, human spacing (``f(a, b).c['k']``); the canonical text
    1  spread     keywords lower, identifiers UPPER, every token separated by newlines / tabs / runs of
                  blanks, strings in double quotes where possible, ``.5`` for ``0.5``, explicit ASC, final ``;``
    2  commented  mIxEd case, a comment (``/* */`` or ``; ...<newline>``) between every two tokens, before
                  the first and after the last, integers with a leading zero
    3  tight      as 0 but no blank wherever two adjacent tokens cannot fuse (``2020-1-5`` stays tight,
                  ``2020 -12-31`` gets the one blank that keeps the subtraction from reading as a date literal)
``salt`` rotates the separator / comment menus (any int; the structure of the text does not change).
"""
import collections
import datetime
import decimal
import re

from beanquery.parser import ast

__all__ = ['unparse', 'tokens', 'render', 'expressible', 'level', 'NotExpressible', 'Tok',
           'STYLES', 'PARENS', 'RESERVED', 'is_safe_identifier', 'ast_to_json', 'ast_from_json', 'same_ast', 'count_grouping']

STYLES = (0, 1, 2, 3)
PARENS = ('minimal', 'full')

# Every alphabetic literal token of the grammar (keywords and contextual words), lower case.
RESERVED = frozenset('''
    and as asc by desc distinct false from group having in is limit not or order pivot select true where
    balances journal print open close clear on at between null
'''.split())

_IDENT = re.compile(r'[a-z_][a-z0-9_]*\Z')
_TABLE = re.compile(r'([A-Za-z_][A-Za-z0-9_]*)?\Z')


class NotExpressible(ValueError):
    """The AST has no BQL text (outside the scope of the round-trip property)."""


Tok = collections.namedtuple('Tok', 'text kind')
# kinds: kw (alphabetic literal token), id (identifier), int, dec, date, str (raw value, quoted at render time),
#        table, op (binary operator), neg (unary minus), lp rp (grouping parentheses), call (function-call '('),
#        lb rb, dot, comma, star, ph ('%s'), phl ('%('), phr (')s')


def is_safe_identifier(name):
    """Lower-case identifier that is not a literal token of the grammar."""
    return isinstance(name, str) and bool(_IDENT.match(name)) and name not in RESERVED


# ---------------------------------------------------------------------------------------------------------
# precedence ladder

_CMP = {
    ast.Less: '<', ast.LessEq: '<=', ast.Greater: '>', ast.GreaterEq: '>=', ast.Equal: '=', ast.NotEqual: '!=',
    ast.Match: '~', ast.NotMatch: '!~',
}
_ADD = {ast.Add: '+', ast.Sub: '-'}
_MUL = {ast.Mul: '*', ast.Div: '/', ast.Mod: '%'}

L_SELECT, L_OR, L_AND, L_NOT, L_CMP, L_ADD, L_MUL, L_NEG, L_PRIMARY = range(9)


def level(node):
    """Precedence level of an expression node (see the module docstring)."""
    t = type(node)
    if t is ast.Select:
        return L_SELECT
    if t is ast.Or:
        return L_OR
    if t is ast.And:
        return L_AND
    if t is ast.Not:
        return L_NOT
    if t in _CMP or t in (ast.In, ast.NotIn, ast.IsNull, ast.IsNotNull, ast.Between):
        return L_CMP
    if t in _ADD:
        return L_ADD
    if t in _MUL:
        return L_MUL
    if t is ast.Neg:
        return L_NEG
    if t in (ast.Attribute, ast.Subscript, ast.Function, ast.Constant, ast.Column, ast.Placeholder):
        return L_PRIMARY
    raise NotExpressible(f'not an expression node: {node!r}')


# ---------------------------------------------------------------------------------------------------------
# token generation

class _Printer:
    def __init__(self, full):
        self.full = full
        self.out = []
        self.needed = 0       # parenthesis pairs demanded by the ladder (not by 'full', not around sub-selects)

    # -- helpers
    def kw(self, *words):
        for w in words:
            self.out.append(Tok(w, 'kw'))

    def p(self, text, kind):
        self.out.append(Tok(text, kind))

    def ident(self, name, what='identifier'):
        if not is_safe_identifier(name):
            raise NotExpressible(f'{what} {name!r} is not a lower-case, non-reserved identifier')
        self.p(name, 'id')

    def string(self, value, what='string'):
        if not isinstance(value, str) or ('"' in value and "'" in value):
            raise NotExpressible(f'{what} {value!r} cannot be quoted')
        self.p(value, 'str')

    def date(self, value):
        if type(value) is not datetime.date:
            raise NotExpressible(f'not a date: {value!r}')
        self.p('%04d-%02d-%02d' % (value.year, value.month, value.day), 'date')

    def integer(self, value, what='integer'):
        if type(value) is not int or value < 0:
            raise NotExpressible(f'{what} {value!r} is not a non-negative int')
        self.p(str(value), 'int')

    def literal(self, v, in_list=False):
        if v is None:
            if in_list:
                raise NotExpressible('NULL inside a list literal is dropped by the grammar')
            self.kw('NULL')
        elif v is True:
            self.kw('TRUE')
        elif v is False:
            self.kw('FALSE')
        elif type(v) is int:
            self.integer(v, 'integer constant')
        elif type(v) is decimal.Decimal:
            if not v.is_finite() or v.is_signed() or v.as_tuple().exponent > 0:
                raise NotExpressible(f'decimal constant {v!r} has no literal form')
            s = format(v, 'f')
            if '.' not in s:
                s += '.'
            self.p(s, 'dec')
        elif type(v) is datetime.date:
            self.date(v)
        elif type(v) is str:
            self.string(v, 'string constant')
        else:
            raise NotExpressible(f'constant {v!r} has no literal form')

    # -- expressions
    def expr(self, n, need=0, paren_ok=True):
        lvl = level(n)
        wrap = lvl < need or self.full or lvl == L_SELECT
        if wrap and not paren_ok:
            if lvl < need or lvl == L_SELECT:
                raise NotExpressible(f'{type(n).__name__} cannot be the operand of an attribute / subscript')
            wrap = False
        if lvl < need and lvl != L_SELECT:
            self.needed += 1
        if wrap:
            self.p('(', 'lp')
        self.bare(n)
        if wrap:
            self.p(')', 'rp')

    def bare(self, n):
        t = type(n)
        if t is ast.Or or t is ast.And:
            if not isinstance(n.args, list) or len(n.args) < 2:
                raise NotExpressible(f'{t.__name__} needs at least two arguments')
            word, need = ('OR', L_AND) if t is ast.Or else ('AND', L_NOT)
            for i, a in enumerate(n.args):
                if i:
                    self.kw(word)
                self.expr(a, need)
        elif t is ast.Not:
            self.kw('NOT')
            self.expr(n.operand, L_NOT)
        elif t in _CMP:
            self.expr(n.left, L_ADD)
            self.p(_CMP[t], 'op')
            self.expr(n.right, L_ADD)
        elif t is ast.In:
            self.expr(n.left, L_ADD)
            self.kw('IN')
            self.expr(n.right, L_ADD)
        elif t is ast.NotIn:
            self.expr(n.left, L_ADD)
            self.kw('NOT', 'IN')
            self.expr(n.right, L_ADD)
        elif t is ast.IsNull:
            self.expr(n.operand, L_ADD)
            self.kw('IS', 'NULL')
        elif t is ast.IsNotNull:
            self.expr(n.operand, L_ADD)
            self.kw('IS', 'NOT', 'NULL')
        elif t is ast.Between:
            self.expr(n.operand, L_ADD)
            self.kw('BETWEEN')
            self.expr(n.lower, L_ADD)
            self.kw('AND')
            self.expr(n.upper, L_ADD)
        elif t in _ADD:
            self.expr(n.left, L_ADD)
            self.p(_ADD[t], 'op')
            self.expr(n.right, L_MUL)
        elif t in _MUL:
            self.expr(n.left, L_MUL)
            self.p(_MUL[t], 'op')
            self.expr(n.right, L_NEG)
        elif t is ast.Neg:
            self.p('-', 'neg')
            self.expr(n.operand, L_NEG)
        elif t is ast.Attribute:
            self.expr(n.operand, L_PRIMARY, paren_ok=False)
            self.p('.', 'dot')
            self.ident(n.name, 'attribute name')
        elif t is ast.Subscript:
            self.expr(n.operand, L_PRIMARY, paren_ok=False)
            self.p('[', 'lb')
            self.string(n.key, 'subscript key')
            self.p(']', 'rb')
        elif t is ast.Function:
            self.ident(n.fname, 'function name')
            self.p('(', 'call')
            ops = n.operands
            if not isinstance(ops, list):
                raise NotExpressible('function operands must be a list')
            if len(ops) == 1 and type(ops[0]) is ast.Asterisk:
                self.p('*', 'star')
            else:
                for i, a in enumerate(ops):
                    if i:
                        self.p(',', 'comma')
                    self.expr(a, 0)
            self.p(')', 'rp')
        elif t is ast.Constant:
            v = n.value
            if type(v) is list:
                if not v:
                    raise NotExpressible('empty list literal')
                self.p('(', 'lp')
                for i, x in enumerate(v):
                    if i:
                        self.p(',', 'comma')
                    if type(x) is list:
                        raise NotExpressible('nested list literal')
                    self.literal(x, in_list=True)
                if len(v) == 1:
                    self.p(',', 'comma')
                self.p(')', 'rp')
            else:
                self.literal(v)
        elif t is ast.Column:
            self.ident(n.name, 'column name')
        elif t is ast.Placeholder:
            if n.name == '':
                self.p('%s', 'ph')
            else:
                self.p('%(', 'phl')
                self.ident(n.name, 'placeholder name')
                self.p(')s', 'phr')
        elif t is ast.Select:
            self.select(n)
        else:
            raise NotExpressible(f'not an expression node: {n!r}')

    # -- clauses
    def item(self, x, what):
        """GROUP BY / ORDER BY item: int = positional index; expression otherwise."""
        if type(x) is int:
            self.integer(x, what + ' index')
            return
        start = len(self.out)
        self.expr(x, 0)
        first = self.out[start]
        if first.kind in ('int', 'date') or (first.kind == 'dec' and first.text[0].isdigit()):
            # "GROUP BY 1 + a" would read the 1 as an index
            self.out.insert(start, Tok('(', 'lp'))
            self.p(')', 'rp')

    def from_(self, f, statement):
        """FROM clause of a statement (without the FROM keyword)."""
        if type(f) is ast.Table:
            if statement != 'select':
                raise NotExpressible('FROM #table only exists for SELECT')
            if not isinstance(f.name, str) or not _TABLE.match(f.name):
                raise NotExpressible(f'table name {f.name!r}')
            self.p('#' + f.name, 'table')
        elif type(f) is ast.Select:
            if statement != 'select':
                raise NotExpressible('FROM (subselect) only exists for SELECT')
            self.p('(', 'lp')
            self.select(f)
            self.p(')', 'rp')
        elif type(f) is ast.From:
            if f.expression is None and f.open is None and f.close is None and f.clear is None:
                raise NotExpressible('empty From')
            if f.clear not in (None, True) or isinstance(f.close, bool) and f.close is not True:
                raise NotExpressible('CLEAR / CLOSE flags are True or absent')
            if f.expression is not None:
                if type(f.expression) is ast.Select:
                    self.p('(', 'lp')       # FROM ((SELECT ...)): one pair alone is the subselect form
                    self.expr(f.expression, 0)
                    self.p(')', 'rp')
                else:
                    self.expr(f.expression, 0)
            if f.open is not None:
                self.kw('OPEN', 'ON')
                self.date(f.open)
            if f.close is not None:
                self.kw('CLOSE')
                if f.close is not True:
                    self.kw('ON')
                    self.date(f.close)
            if f.clear:
                self.kw('CLEAR')
        else:
            raise NotExpressible(f'not a FROM clause: {f!r}')

    def target(self, t):
        if type(t) is not ast.Target:
            raise NotExpressible(f'not a target: {t!r}')
        self.expr(t.expression, 0)
        if t.name is not None:
            self.kw('AS')
            self.ident(t.name, 'alias')

    def groupby(self, g):
        if not isinstance(g.columns, list) or not g.columns:
            raise NotExpressible('GROUP BY needs at least one item')
        for i, c in enumerate(g.columns):
            if i:
                self.p(',', 'comma')
            self.item(c, 'GROUP BY')
        if g.having is not None:
            self.kw('HAVING')
            self.expr(g.having, 0)

    def orderby(self, o):
        self.item(o.column, 'ORDER BY')
        if o.ordering == ast.Ordering.DESC:
            self.kw('DESC')
        elif o.ordering == ast.Ordering.ASC:
            self.p('ASC', 'asc')       # optional word: only some styles spell it
        else:
            raise NotExpressible(f'ordering {o.ordering!r}')

    def pivotby(self, p):
        if not isinstance(p.columns, list) or len(p.columns) != 2:
            raise NotExpressible('PIVOT BY takes exactly two items')
        for i, c in enumerate(p.columns):
            if i:
                self.p(',', 'comma')
            if type(c) is int:
                self.integer(c, 'PIVOT BY index')
            elif type(c) is ast.Column:
                self.ident(c.name, 'PIVOT BY column')
            else:
                raise NotExpressible('PIVOT BY items are indexes or column names')

    def select(self, s):
        self.kw('SELECT')
        if s.distinct is not None:
            if s.distinct is not True:
                raise NotExpressible('DISTINCT is True or absent')
            self.kw('DISTINCT')
        if type(s.targets) is ast.Asterisk:
            self.p('*', 'star')
        else:
            if not isinstance(s.targets, list) or not s.targets:
                raise NotExpressible('SELECT needs at least one target')
            for i, t in enumerate(s.targets):
                if i:
                    self.p(',', 'comma')
                self.target(t)
        if s.from_clause is not None:
            self.kw('FROM')
            self.from_(s.from_clause, 'select')
        if s.where_clause is not None:
            self.kw('WHERE')
            self.expr(s.where_clause, 0)
        if s.group_by is not None:
            self.kw('GROUP', 'BY')
            self.groupby(s.group_by)
        if s.order_by is not None:
            if not isinstance(s.order_by, list) or not s.order_by:
                raise NotExpressible('ORDER BY needs at least one item')
            self.kw('ORDER', 'BY')
            for i, o in enumerate(s.order_by):
                if i:
                    self.p(',', 'comma')
                self.orderby(o)
        if s.pivot_by is not None:
            self.kw('PIVOT', 'BY')
            self.pivotby(s.pivot_by)
        if s.limit is not None:
            self.kw('LIMIT')
            self.integer(s.limit, 'LIMIT')

    def statement(self, n):
        t = type(n)
        if t is ast.Select:
            self.select(n)
        elif t is ast.Balances:
            self.kw('BALANCES')
            if n.summary_func is not None:
                self.kw('AT')
                self.ident(n.summary_func, 'summary function')
            if n.from_clause is not None:
                self.kw('FROM')
                self.from_(n.from_clause, 'balances')
            if n.where_clause is not None:
                self.kw('WHERE')
                self.expr(n.where_clause, 0)
        elif t is ast.Journal:
            self.kw('JOURNAL')
            if n.account is not None:
                self.string(n.account, 'JOURNAL account')
            if n.summary_func is not None:
                self.kw('AT')
                self.ident(n.summary_func, 'summary function')
            if n.from_clause is not None:
                self.kw('FROM')
                self.from_(n.from_clause, 'journal')
        elif t is ast.Print:
            self.kw('PRINT')
            if n.from_clause is not None:
                self.kw('FROM')
                self.from_(n.from_clause, 'print')
        else:
            raise NotExpressible(f'not a statement: {n!r}')


_STATEMENTS = (ast.Select, ast.Balances, ast.Journal, ast.Print)


def tokens(node, parens='minimal'):
    """Token sequence of a statement, an expression or a clause node.

    A Select given directly is a statement (no parentheses); nested in an expression it is a sub-select."""
    if parens not in PARENS:
        raise ValueError(f'parens must be one of {PARENS}')
    pr = _Printer(parens == 'full')
    t = type(node)
    if t in _STATEMENTS:
        pr.statement(node)
    elif t is ast.Target:
        pr.target(node)
    elif t in (ast.From, ast.Table):
        pr.from_(node, 'select')
    elif t is ast.GroupBy:
        pr.groupby(node)
    elif t is ast.OrderBy:
        pr.orderby(node)
    elif t is ast.PivotBy:
        pr.pivotby(node)
    elif t is ast.Asterisk:
        pr.p('*', 'star')
    else:
        pr.expr(node, 0)
    return pr.out


def count_grouping(node):
    """Number of parenthesis pairs the minimal printer must insert for precedence / associativity reasons."""
    pr = _Printer(False)
    if type(node) in _STATEMENTS:
        pr.statement(node)
    else:
        pr.expr(node, 0)
    return pr.needed


def expressible(node):
    try:
        tokens(node)
    except NotExpressible:
        return False
    return True


# ---------------------------------------------------------------------------------------------------------
# spelling

_SPREAD = ['\n', '\t', '  ', '\n\t', ' \n ', '\r\n', ' ', '\t\t \n']
_COMMENTS = [
    '/* c */', ' /**/ ', '/*SELECT \' " ; FROM*/', ' ; eol comment \' /* not closed\n', '/*\n * multi\n ** line\n **/',
    '\t/***/\t', ';\n', ' /* a */ /* b */ ', '/* / * */', ';; ) ( */\n\t',
]


def _mixed(word, start_upper):
    out = []
    up = start_upper
    for ch in word:
        if ch.isalpha():
            out.append(ch.upper() if up else ch.lower())
            up = not up
        else:
            out.append(ch)
    return ''.join(out)


def _quote(value, prefer):
    other = '"' if prefer == "'" else "'"
    q = prefer if prefer not in value else other
    return q + value + q


def _spell(tok, style, index):
    text, kind = tok
    if kind == 'kw' or kind == 'asc':
        if style == 1:
            return text.lower()
        if style == 2:
            return _mixed(text, index % 2 == 0)
        return text.upper()
    if kind == 'id':
        if style == 1:
            return text.upper()
        if style == 2:
            return _mixed(text, index % 2 == 1)
        return text
    if kind == 'str':
        return _quote(text, '"' if style == 1 else "'")
    if kind == 'int':
        return '0' + text if style == 2 else text
    if kind == 'dec':
        if style == 1 and text.startswith('0.') and len(text) > 2:
            return text[1:]
        return text
    return text


_WORD = re.compile(r'[A-Za-z0-9_]')


def _needs_blank(a, b, ka, kb):
    """Tight style: must a blank separate spelled tokens a, b?"""
    x, y = a[-1], b[0]
    if _WORD.match(x) and _WORD.match(y):
        return True
    if (x.isdigit() or x == '.') and y == '.':       # 1 .b   1. .b
        return True
    if x == '.' and y.isdigit():
        return True
    if (x, y) in (('/', '*'), ('*', '/')):           # would open / close a comment
        return True
    if ka == 'table' and _WORD.match(y):               # '#' + 'WHERE' would be read as the table name
        return True
    if ka == 'op' and a == '%' and (y in 'sS('):     # a % s  is not the placeholder %s
        return True
    return False


def _date_lookalikes(words, kinds):
    """Tight style: indexes i such that tokens i..i+4 are  NNNN - NN - NN...  (integer of exactly four digits,
    minus, integer of exactly two digits, minus, integer of at least two digits).  Written without blanks that
    subtraction chain would be read as the date literal YYYY-MM-DD, so a blank must follow token i.  Every other
    chain of integer literals (2020-1-5, 2020-01-5 cannot arise, 12345-01-01, 999-01-01) is printed tight."""
    out = set()
    for i in range(len(words) - 4):
        if (kinds[i] == 'int' and len(words[i]) == 4 and kinds[i + 1] in ('op', 'neg') and words[i + 1] == '-'
                and kinds[i + 2] == 'int' and len(words[i + 2]) == 2 and kinds[i + 3] == 'op' and words[i + 3] == '-'
                and kinds[i + 4] == 'int' and len(words[i + 4]) >= 2):
            out.add(i)
    return out


def _plain_blank(a, b, ka, kb):
    if kb in ('comma', 'rp', 'rb', 'phr', 'call', 'lb'):
        return False
    if ka in ('lp', 'call', 'lb', 'phl'):
        return False
    if kb == 'dot':
        return a[-1].isdigit() or a[-1] == '.'
    if ka == 'dot':
        return False
    if ka == 'neg':
        return kb == 'neg'
    return True


def render(toks, style=0, salt=0, ends=True):
    """Spell a token sequence.  See the module docstring for the four styles.  ``ends=False`` leaves out
    what styles 1 and 2 put before the first and after the last token (final ``;``, leading / trailing
    comments) so that the text can be embedded in a larger statement."""
    if style not in STYLES:
        raise ValueError(f'style must be one of {STYLES}')
    toks = [t for t in toks if t.kind != 'asc' or style in (1, 2)]
    words = [_spell(t, style, i + salt) for i, t in enumerate(toks)]
    kinds = [t.kind for t in toks]
    out = []
    lookalikes = _date_lookalikes(words, kinds) if style == 3 else ()
    if style == 2 and ends:
        out.append(_COMMENTS[salt % len(_COMMENTS)])
    for i, w in enumerate(words):
        if i:
            a, ka, kb = words[i - 1], kinds[i - 1], kinds[i]
            if style == 0:
                out.append(' ' if _plain_blank(a, w, ka, kb) else '')
            elif style == 1:
                out.append(_SPREAD[(i + salt) % len(_SPREAD)])
            elif style == 2:
                out.append(_COMMENTS[(i * 3 + salt + 1) % len(_COMMENTS)])
            else:
                out.append(' ' if (i - 1) in lookalikes or _needs_blank(a, w, ka, kb) else '')
        out.append(w)
    if not ends:
        pass
    elif style == 1:
        out.append(_SPREAD[salt % len(_SPREAD)] + ';')
    elif style == 2:
        out.append(_COMMENTS[(salt + 5) % len(_COMMENTS)].rstrip('\n') if salt % 2 else _COMMENTS[(salt + 3) % len(_COMMENTS)])
    return ''.join(out)


def unparse(node, parens='minimal', style=0, salt=0, ends=True):
    """BQL text of ``node``; ``parse(unparse(ast)) == ast`` is property C06."""
    return render(tokens(node, parens), style, salt, ends)


# ---------------------------------------------------------------------------------------------------------
# JSON form of ASTs (replay files) and strict comparison

def ast_to_json(x):
    """Lossless JSON-serialisable form of an AST (nodes, lists, literals, Ordering)."""
    import dataclasses
    if isinstance(x, ast.Node):
        d = {'$node': type(x).__name__}
        for f in dataclasses.fields(x):
            if f.compare:
                d[f.name] = ast_to_json(getattr(x, f.name))
        return d
    if isinstance(x, ast.Ordering):
        return {'$ordering': x.name}
    if isinstance(x, list):
        return [ast_to_json(i) for i in x]
    if x is None or isinstance(x, (bool, int, str)):
        return x
    if isinstance(x, decimal.Decimal):
        return {'$dec': str(x)}
    if isinstance(x, datetime.date):
        return {'$date': x.isoformat()}
    raise TypeError(f'cannot serialise {x!r}')


def ast_from_json(x):
    if isinstance(x, list):
        return [ast_from_json(i) for i in x]
    if isinstance(x, dict):
        if '$node' in x:
            cls = getattr(ast, x['$node'])
            return cls(**{k: ast_from_json(v) for k, v in x.items() if k != '$node'})
        if '$ordering' in x:
            return ast.Ordering[x['$ordering']]
        if '$dec' in x:
            return decimal.Decimal(x['$dec'])
        if '$date' in x:
            return datetime.date.fromisoformat(x['$date'])
        raise TypeError(f'cannot deserialise {x!r}')
    return x


def same_ast(a, b):
    """The comparison of C06: dataclass equality (parse positions ignored) and, because Python's ``==``
    identifies 1, TRUE, Decimal('1') and Decimal('1.0'), equal ``repr`` as well."""
    return a == b and repr(a) == repr(b)
