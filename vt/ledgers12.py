"""Ledger family shared by C12 (inventory homomorphism / running balance) and C13 (OPEN / CLOSE / CLEAR).

Family  = all sequences of <= n transactions over the 9-template alphabet TEMPLATES, the i-th
          transaction of a sequence dated DATES[i] (strictly increasing, three different months), on top
          of a fixed preamble (opens for Assets / Liabilities / Income / Expenses / Equity accounts,
          including the five Equity accounts beancount's summarisation posts to) and a fixed schedule of
          price directives.
Rates   : price directives (and the `@` price of the conversion template) only use rates whose
          reciprocal terminates (1.25 <-> 0.8, 2.5 <-> 0.4, 0.5 <-> 2): beancount's price map stores the
          inverse rate 1/r computed in 28-digit Decimal arithmetic; with e.g. 1.12 the law
          convert(sum(x)) == sum(convert(x)) fails in the 28th digit although nothing is wrong.
          VERIF_SEED only rotates which terminating rates / HOOL prices are used, never the structure.
Loading : text -> beancount.loader.load_string (cached per process).  A member must load without any
          error; sequences that cannot be booked (a sale before its purchase, more units sold than
          held) are *skipped* and counted, never silently loaded with errors.

Nothing here imports beanquery: the ledgers and the helper traversals are beancount-only.
"""
import datetime
import functools
import itertools

from beancount import loader
from beancount.core import data

D0 = datetime.date(2020, 1, 1)

# date of the i-th transaction of a sequence: two in January, one in February, one in March, one in April
DATES = [datetime.date(2020, 1, 10), datetime.date(2020, 1, 25), datetime.date(2020, 2, 10),
         datetime.date(2020, 3, 5), datetime.date(2020, 4, 2)]

PREAMBLE = """\
option "operating_currency" "USD"
2019-12-01 open Assets:Cash
2019-12-01 open Assets:Inv
2019-12-01 open Liabilities:Card
2019-12-01 open Income:Salary
2019-12-01 open Income:Gains
2019-12-01 open Expenses:Food
2019-12-01 open Equity:Start
2019-12-01 open Equity:Opening-Balances
2019-12-01 open Equity:Earnings:Previous
2019-12-01 open Equity:Earnings:Current
2019-12-01 open Equity:Conversions:Previous
2019-12-01 open Equity:Conversions:Current
"""

# name -> posting lines; {d} is the transaction date
TEMPLATES = {
    'usd': ['Assets:Cash  1000.00 USD', 'Equity:Start  -1000.00 USD'],
    'eur': ['Assets:Cash  500.00 EUR', 'Equity:Start  -500.00 EUR'],
    'buy1': ['Assets:Inv  10 HOOL {{20.00 USD, 2020-01-03}}', 'Assets:Cash  -200.00 USD'],
    'buy2': ['Assets:Inv  5 HOOL {{26.00 USD}}', 'Assets:Cash  -130.00 USD'],
    'sell': ['Assets:Inv  -4 HOOL {{20.00 USD}} @ 25.00 USD', 'Assets:Cash  100.00 USD', 'Income:Gains'],
    'conv': ['Assets:Cash  -125.00 USD', 'Assets:Cash  100.00 EUR @ 1.25 USD'],
    'exp': ['Expenses:Food  30.00 EUR', 'Liabilities:Card  -30.00 EUR'],
    'inc': ['Assets:Cash  500.00 USD', 'Income:Salary  -500.00 USD'],
    # a lot held at a per-unit cost of exactly zero (grant / spin-off): weight 0.00 USD, balances by itself
    'grant': ['Assets:Inv  3 HOOL {{0.00 USD}}', 'Income:Gains  0.00 USD'],
}
ALPHABET = list(TEMPLATES)
# "feature weight" used to order the family most-feature-rich first (C13 picks a prefix of that order)
FEATURE = {'usd': 1, 'eur': 2, 'buy1': 4, 'buy2': 4, 'sell': 6, 'conv': 5, 'exp': 3, 'inc': 3, 'grant': 3}

# terminating EUR/USD rates (the reciprocal of each is exact) and HOOL prices; rotated by the seed
EUR_RATES = ['1.25', '0.8', '2.5', '0.4', '0.5', '2']
HOOL_PRICES = ['22.00', '30.00', '24.50', '18.00']


def price_schedule(seed=0, variant=0):
    """Fixed price directives (dates interleave with DATES; one before every transaction date).
    variant 1: the same directives with every rate doubled (reciprocals still terminate) -- a second
    price map for the same (pair, date) keys, so that two ledgers of one process disagree on a rate.
    variant 2: the same directives with the latest rate of every pair set to exactly 0 (a price that
    exists and is zero is not a missing price: beancount values the position at 0 <quote>)."""
    r = EUR_RATES[seed % len(EUR_RATES):] + EUR_RATES[:seed % len(EUR_RATES)]
    h = HOOL_PRICES[seed % len(HOOL_PRICES):] + HOOL_PRICES[:seed % len(HOOL_PRICES)]
    if variant == 2:
        # the LAST directive of every (base, quote) pair is exactly zero (a delisted share, a worthless
        # currency); the earlier directives of the pair keep their ordinary rate
        base = price_schedule(seed, 0)
        last = {(b, q): i for i, (d, b, x, q) in enumerate(base)}
        return [(d, b, ('0.00' if last[(b, q)] == i else x), q) for i, (d, b, x, q) in enumerate(base)]
    if variant:
        import decimal
        return [(d, b, str(decimal.Decimal(x) * 2), q) for d, b, x, q in price_schedule(seed, 0)]
    return [
        (datetime.date(2020, 1, 12), 'EUR', r[0], 'USD'),
        (datetime.date(2020, 1, 12), 'HOOL', h[0], 'USD'),
        (datetime.date(2020, 2, 2), 'HOOL', h[1], 'USD'),
        (datetime.date(2020, 2, 15), 'EUR', r[2], 'USD'),
        (datetime.date(2020, 3, 1), 'HOOL', '16.00', 'EUR'),
    ]


# dates used as the optional date argument of value() / convert(): before every price, between the
# two EUR and HOOL prices, on a price date, after all prices
FUNC_DATES = [datetime.date(2020, 1, 5), datetime.date(2020, 1, 20), datetime.date(2020, 2, 15), datetime.date(2020, 3, 20)]


def text(seq, seed=0, variant=0):
    lines = [PREAMBLE]
    for pd, base, rate, quote in price_schedule(seed, variant):
        lines.append(f'{pd} price {base} {rate} {quote}\n')
    for i, name in enumerate(seq):
        lines.append(f'{DATES[i]} * "t{i}-{name}"\n')
        for p in TEMPLATES[name]:
            lines.append('  ' + p.format(d=DATES[i]) + '\n')
    return ''.join(lines)


@functools.lru_cache(maxsize=None)
def load(seq, seed=0, variant=0):
    """-> (entries, errors, options); entries is a list, errors must be checked by the caller."""
    return loader.load_string(text(seq, seed, variant))


def sequences(n):
    """All sequences of length <= n over ALPHABET, shortest first, lexicographic in ALPHABET order."""
    for k in range(n + 1):
        yield from itertools.product(ALPHABET, repeat=k)


def family(n, seed=0):
    """Yield (index, seq, entries, options) for every bookable member; index counts *all* candidates."""
    for i, seq in enumerate(sequences(n)):
        entries, errors, options = load(seq, seed)
        if errors:
            continue
        yield i, seq, entries, options


def richness(seq):
    """Sort key, larger = more features: distinct templates weighted, then length."""
    return (sum(FEATURE[t] for t in set(seq)), len(seq))


def transactions(entries):
    return [e for e in entries if isinstance(e, data.Transaction)]


def postings(entries):
    """[(txn, posting)] in ledger order."""
    return [(t, p) for t in transactions(entries) for p in t.postings]
