"""Value alphabets per BQL type: a fixed boundary core plus seed-rotated ordinary values.

The *structure* of every exploration is independent of VERIF_SEED; the seed only selects which
"ordinary" representatives accompany the boundary values (NULL, zero, negative, empty, ties, month
ends).  The alphabet actually used is written to the evidence file by each check.
"""
import datetime
import decimal

from dateutil.relativedelta import relativedelta

D = decimal.Decimal
date = datetime.date

# boundary core (always present), ordinary pool (rotated by the seed)
_CORE = {
    int: [None, 0, 1, -3],
    D: [None, D('0'), D('-1.5'), D('0.50'), D('0.5')],      # 0.50 / 0.5: equal values of different scale
    str: [None, '', 'a', 'Ab'],
    date: [None, date(2019, 12, 31), date(2020, 2, 29)],
    bool: [None, True, False],
}
_POOL = {
    int: [2, 7, 12, 5, 100, -1],
    D: [D('2'), D('2.25'), D('7.125'), D('-0.01'), D('100'), D('3.3')],
    str: ['b:c', 'B', 'ab', 'xyz', 'a b', 'Assets:Cash'],
    date: [date(2020, 1, 1), date(2021, 3, 31), date(2020, 12, 31), date(1999, 7, 15)],
    bool: [],
}
_NPOOL = {int: 2, D: 2, str: 1, date: 1, bool: 0}


def alphabet(dtype, seed=0, small=False):
    """Alphabet of a scalar column type.  ``small`` -> NULL + 2..3 values (for wide products)."""
    core = list(_CORE[dtype])
    pool = _POOL[dtype]
    k = _NPOOL[dtype]
    extra = [pool[(seed + i) % len(pool)] for i in range(k)] if pool else []
    # avoid duplicates while keeping order
    out = []
    for v in core + extra:
        if not any(v is w or (v is not None and w is not None and type(v) is type(w) and repr(v) == repr(w)) for w in out):
            out.append(v)
    if small:
        if dtype is bool:
            return out
        return out[:3] + extra[:1]
    return out


def intervals():
    return [None, relativedelta(days=1), relativedelta(months=1), relativedelta(years=-1)]


def sets(seed=0):
    return [None, set(), {'a'}, {'a', 'Ab'}]


def lists(seed=0):
    return [None, [], ['a'], [1, D('2')]]


def dicts(seed=0):
    return [None, {}, {'a': 1}, {'k': 'v', 'a': D('2')}]


def objects(seed=0):
    return [None, D('2.5'), '3', '7.5', 'x', '2020-01-31', date(2020, 1, 1), True, 5]


REGEXES = ['a', '^b', 'B', '', 'a|x', '.']


def describe(seed):
    return {t.__name__: [repr(v) for v in alphabet(t, seed)] for t in _CORE}
