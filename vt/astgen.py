"""Typed AST enumerator: every well-typed expression of bounded depth over the live registries.

An enumerated expression is a ``TE`` (typed expression): AST node + reference dtype + the harness
columns it reads + a *locus* tag naming the outermost overload (used for fingerprints) + depth.
Operand slots are filled by (a) a harness column of the declared type, (b) a constant of that type,
(c) a sub-expression of smaller depth whose reference type matches.  Order is simplest first.

Harness column pool (two per scalar type so that binary operators see independent operands):
    i1 i2 int, d1 d2 Decimal, s1 s2 str, t1 t2 date, b1 b2 bool, iv interval, st set, ls list, mp dict
"""
import datetime
import decimal
import itertools

from dateutil.relativedelta import relativedelta

from beanquery import query_compile as qc
from beanquery import types as bqtypes
from beanquery.parser import ast

from . import domains
from .ref import expr as refexpr

D = decimal.Decimal
date = datetime.date

POOL = {
    int: ['i1', 'i2'], D: ['d1', 'd2'], str: ['s1', 's2'], date: ['t1', 't2'], bool: ['b1', 'b2'],
    relativedelta: ['iv'], set: ['st'], list: ['ls'], dict: ['mp'], object: ['o1'],
}
COLTYPE = {c: t for t, cs in POOL.items() for c in cs}
SCALARS = [int, D, str, date, bool]


def tname(t):
    return getattr(t, '__name__', str(t))


class TE:
    __slots__ = ('node', 'dtype', 'cols', 'locus', 'depth', 'kind', 'ref')

    def __init__(self, node, dtype, cols, locus, depth, kind='expr', ref=None):
        self.node = node
        self.ref = ref          # the expression the REFERENCE evaluates, when it differs (explicit casts of untyped operands)
        self.dtype = dtype
        self.cols = frozenset(cols)
        self.locus = locus
        self.depth = depth
        self.kind = kind

    def __repr__(self):
        return f'TE({self.locus}, {tname(self.dtype)}, d{self.depth}, {sorted(self.cols)})'


def column(name):
    return TE(ast.Column(name), COLTYPE[name], [name], f'col:{tname(COLTYPE[name])}', 0, 'col')


def constant(value, dtype=None):
    return TE(ast.Constant(value), dtype or type(value), [], f'const:{tname(dtype or type(value))}', 0, 'const')


def constants(dtype, seed=0):
    """Two non-NULL constants per type: one boundary value, one ordinary."""
    vals = [v for v in domains.alphabet(dtype, seed) if v is not None]
    if dtype is bool:
        return [constant(True), constant(False)]
    if dtype is str:
        return [constant('a'), constant(vals[-1])]
    return [constant(vals[0]), constant(vals[-1])]


def leaves(dtype, seed=0, which=0):
    """Operand candidates of depth 0: both pool columns + constants."""
    out = [column(c) for c in POOL.get(dtype, [])]
    if dtype in SCALARS:
        out += constants(dtype, seed)
    return out


# reference signatures of the total scalar functions (subset of the registry whose laws are
# spelled out in ref.expr.FUNCS).  (name, argument types, result type)
FUNCSIGS = [
    ('bool', [int], bool), ('bool', [D], bool), ('bool', [str], bool), ('bool', [bool], bool),
    ('int', [int], int), ('int', [bool], int), ('int', [D], int), ('int', [str], int),
    ('decimal', [D], D), ('decimal', [int], D), ('decimal', [bool], D), ('decimal', [str], D),
    ('str', [int], str), ('str', [D], str), ('str', [str], str), ('str', [bool], str), ('str', [date], str),
    ('date', [date], date), ('date', [str], date), ('date', [int, int, int], date),
    ('neg', [D], D), ('abs', [D], D),
    ('round', [D], D), ('round', [D, int], D), ('round', [int], int), ('round', [int, int], int),
    ('safediv', [D, D], D), ('safediv', [D, int], D),
    ('length', [str], int), ('length', [set], int), ('length', [list], int),
    ('upper', [str], str), ('lower', [str], str), ('substr', [str, int, int], str),
    ('year', [date], int), ('month', [date], int), ('day', [date], int),
    ('quarter', [date], str), ('weekday', [date], str), ('yearmonth', [date], date),
    ('date_add', [date, int], date), ('date_diff', [date, date], int),
    ('root', [str, int], str), ('parent', [str], str), ('leaf', [str], str),
]

CMP = [ast.Equal, ast.NotEqual, ast.Greater, ast.GreaterEq, ast.Less, ast.LessEq]


def registry_overloads():
    """(node class, intypes, outtype) for every operator overload in the live registry."""
    out = []
    for op, impls in qc.OPERATORS.items():
        for impl in impls:
            its = list(impl.__intypes__)
            out.append((op, its, impl))
    return out


def _outtype(op, its):
    """Reference result type of an operator overload (from the property text)."""
    if op in CMP or op in (ast.Match, ast.NotMatch, ast.In, ast.NotIn, ast.Between, ast.Not, ast.IsNull, ast.IsNotNull):
        return bool
    a = its[0]
    b = its[-1]
    if op is ast.Neg:
        return a
    if op is ast.Div:
        return D
    if a in (int, D) and b in (int, D):
        return int if (a is int and b is int) else D
    if a is date and b is date:
        return int
    if date in (a, b):
        return date
    if a is relativedelta and b is relativedelta:
        return relativedelta
    return None


def slot_fillers(dtype, producers, seed, nested_only=False):
    if nested_only:
        return list(producers.get(dtype, []))
    return leaves(dtype, seed) + list(producers.get(dtype, []))


def _regex_operands():
    return [constant(r) for r in domains.REGEXES[:4]]


def build(op, args, outtype, locus):
    cols = set()
    for a in args:
        cols |= a.cols
    depth = 1 + max(a.depth for a in args)
    if op in (ast.And, ast.Or):
        node = op([a.node for a in args])
    elif op is ast.Between:
        node = op(*[a.node for a in args])
    elif isinstance(op, str):
        node = ast.Function(op, [a.node for a in args])
    else:
        node = op(*[a.node for a in args])
    return TE(node, outtype, cols, locus, depth)


def distinct_leaf_tuples(intypes, seed, any_types):
    """Depth-0 operand tuples for a signature: columns (independent ones for equal types), then one
    constant in each position."""
    def cols_for(t, used):
        names = POOL.get(t, [])
        for n in names:
            if n not in used:
                return n
        return names[0] if names else None

    variants = []
    for concrete in itertools.product(*[(any_types if t is bqtypes.Any else [t]) for t in intypes]):
        used = []
        args = []
        ok = True
        for t in concrete:
            n = cols_for(t, used)
            if n is None:
                ok = False
                break
            used.append(n)
            args.append(column(n))
        if not ok:
            continue
        variants.append((concrete, args))
        # same column on both sides (x op x)
        if len(concrete) == 2 and concrete[0] is concrete[1] and concrete[0] in SCALARS:
            variants.append((concrete, [args[0], args[0]]))
        # one constant per position
        for pos, t in enumerate(concrete):
            if t in SCALARS:
                for c in constants(t, seed):
                    a2 = list(args)
                    a2[pos] = c
                    variants.append((concrete, a2))
    return variants


def depth1(seed=0):
    """All depth-1 expressions: every operator overload and function signature over leaf operands."""
    out = []
    for op, its, impl in registry_overloads():
        if op in (ast.Match, ast.NotMatch):
            # right operand: a valid regular expression (invalid patterns are data errors)
            for left in [column('s1'), constant('Ab')]:
                for right in _regex_operands() + [column('s2')]:
                    out.append(build(op, [left, right], bool, f'{op.__name__}[str,str]'))
            continue
        if op in (ast.In, ast.NotIn):
            rt = its[1]
            for lt in (str, int, D):
                left = column(POOL[lt][0])
                if rt in POOL:
                    out.append(build(op, [left, column(POOL[rt][0])], bool, f'{op.__name__}[{tname(lt)},{tname(rt)}]'))
            continue
        if op is ast.Not:
            for a in leaves(bool, seed):
                out.append(build(op, [a], bool, 'Not[bool]'))
            continue
        if op in (ast.IsNull, ast.IsNotNull):
            for t in SCALARS + [set, dict, relativedelta]:
                out.append(build(op, [column(POOL[t][0])], bool, f'{op.__name__}[{tname(t)}]'))
            continue
        outtype = _outtype(op, its)
        loc = f'{op.__name__}[{",".join(tname(t) for t in its)}]'
        for concrete, args in distinct_leaf_tuples(its, seed, SCALARS):
            if op is ast.Between and sum(a.kind == 'const' for a in args) > 1:
                continue
            out.append(build(op, args, outtype, loc))
    # IN / NOT IN over list constants
    for op in (ast.In, ast.NotIn):
        out.append(build(op, [column('s1'), TE(ast.Constant(['a', 'Ab']), list, [], 'const:list', 0, 'const')], bool, f'{op.__name__}[str,listconst]'))
        out.append(build(op, [column('i1'), TE(ast.Constant([1, 7, 0]), list, [], 'const:list', 0, 'const')], bool, f'{op.__name__}[int,listconst]'))
    # AND / OR with 2 and 3 arguments
    b = [column('b1'), column('b2')]
    for op in (ast.And, ast.Or):
        out.append(build(op, [b[0], b[1]], bool, f'{op.__name__}2'))
        out.append(build(op, [b[0], b[1], constant(True)], bool, f'{op.__name__}3'))
        out.append(build(op, [b[0], constant(False), b[1]], bool, f'{op.__name__}3'))
        out.append(build(op, [b[0], b[1], b[0]], bool, f'{op.__name__}3'))
        # operands of other types count by their truth value; the result is still a boolean (zero, 0.00 and '' are in the alphabets)
        for t in (int, D, str, date):
            c1 = column(POOL[t][0])
            out.append(build(op, [c1, b[0]], bool, f'{op.__name__}2[{tname(t)},bool]'))
            out.append(build(op, [b[0], c1], bool, f'{op.__name__}2[bool,{tname(t)}]'))
        out.append(build(op, [column('s1'), column('i1')], bool, f'{op.__name__}2[str,int]'))
        out.append(build(op, [column('d1'), column('i1'), column('s1')], bool, f'{op.__name__}3[decimal,int,str]'))
    # COALESCE per type
    for t in SCALARS:
        c1, c2 = POOL[t]
        out.append(build('coalesce', [column(c1), column(c2)], t, f'coalesce[{tname(t)}]'))
        out.append(build('coalesce', [column(c1), constants(t, seed)[-1]], t, f'coalesce[{tname(t)}]'))
        out.append(build('coalesce', [column(c1), column(c2), constants(t, seed)[0]], t, f'coalesce[{tname(t)}]'))
    # untyped (object) operand against a typed operand: the object operand is implicitly cast to the other operand's
    # type (int -> decimal); the reference evaluates the explicit cast
    CAST = {int: 'decimal', D: 'decimal', str: 'str', date: 'date', bool: 'bool'}
    o = ast.Column('o1')
    for op in [ast.Add, ast.Sub, ast.Mul, ast.Div, ast.Mod] + CMP + [ast.Match]:
        for t in (int, D, str, date):
            c = ast.Column(POOL[t][0])
            cast = ast.Function(CAST[t], [ast.Column('o1')])
            rt = bool if (op in CMP or op is ast.Match) else None
            out.append(TE(op(o, c), rt, ['o1', POOL[t][0]], f'{op.__name__}[object,{tname(t)}]', 1, ref=op(cast, c)))
            out.append(TE(op(c, o), rt, ['o1', POOL[t][0]], f'{op.__name__}[{tname(t)},object]', 1, ref=op(c, cast)))
    # total scalar functions
    for name, its, rt in FUNCSIGS:
        loc = f'{name}({",".join(tname(t) for t in its)})'
        for concrete, args in distinct_leaf_tuples(its, seed, SCALARS):
            if sum(a.kind == 'const' for a in args) > 1:
                continue
            if all(a.kind == 'const' for a in args):
                continue
            out.append(build(name, args, rt, loc))
    return out


def by_type(tes):
    d = {}
    for te in tes:
        d.setdefault(te.dtype, []).append(te)
    return d


def representative_producers(d1):
    """One producer per (result type, locus): bounds the number of nested candidates per slot while
    keeping every overload as a child at least once."""
    seen = set()
    out = []
    for te in d1:
        k = (te.dtype, te.locus)
        if k in seen or te.dtype is None or te.ref is not None:
            continue
        if all(False for _ in te.cols):    # constant-only expressions are folded: keep column-reading ones
            continue
        seen.add(k)
        out.append(te)
    return out


def depth2(d1, seed=0, all_slots=False, max_cols=3, full_children=False):
    """Every overload with one operand slot (or, with all_slots, every slot) replaced by a depth-1
    producer of the declared type (one representative per overload), the other slots being columns."""
    prods = by_type(representative_producers(d1))
    if full_children and not all_slots:
        # every depth-1 expression that reads at least one column is a child candidate
        prods = by_type([te for te in d1 if te.cols and te.dtype is not None and te.ref is None])
    out = []
    sigs = []
    for op, its, impl in registry_overloads():
        if op in (ast.In, ast.NotIn, ast.Match, ast.NotMatch):
            continue
        if op is ast.Not:
            sigs.append((op, [bool], bool, 'Not[bool]'))
            continue
        if op in (ast.IsNull, ast.IsNotNull):
            for t in SCALARS:
                sigs.append((op, [t], bool, f'{op.__name__}[{tname(t)}]'))
            continue
        sigs.append((op, its, _outtype(op, its), f'{op.__name__}[{",".join(tname(t) for t in its)}]'))
    sigs.append((ast.Match, [str, str], bool, 'Match[str,str]'))
    for op in (ast.And, ast.Or):
        sigs.append((op, [bool, bool], bool, f'{op.__name__}2'))
        sigs.append((op, [bool, bool, bool], bool, f'{op.__name__}3'))
    for t in SCALARS:
        sigs.append(('coalesce', [t, t], t, f'coalesce[{tname(t)}]'))
    for name, its, rt in FUNCSIGS:
        sigs.append((name, its, rt, f'{name}({",".join(tname(t) for t in its)})'))

    for op, its, rt, loc in sigs:
        base = []
        used = []
        for t in its:
            names = [n for n in POOL.get(t, []) if n not in used] or POOL.get(t, [])
            if not names:
                base = None
                break
            used.append(names[0])
            base.append(column(names[0]))
        if base is None:
            continue
        if op is ast.Match:
            base[1] = constant('a')
        if all_slots:
            choices = [prods.get(t, []) for t in its]
            if op is ast.Match:
                choices[1] = [constant('a')]
            for combo in itertools.product(*choices):
                cols = set().union(*[c.cols for c in combo])
                if len(cols) > max_cols:
                    continue
                out.append(build(op, list(combo), rt, loc + '<' + '|'.join(c.locus for c in combo) + '>'))
        else:
            for pos, t in enumerate(its):
                if op is ast.Match and pos == 1:
                    continue
                for child in prods.get(t, []):
                    args = list(base)
                    args[pos] = child
                    cols = set().union(*[a.cols for a in args])
                    if len(cols) > max_cols:
                        # reuse the child's columns for the remaining slots where types allow
                        args = [a if a is child or a.kind != 'col' else _reuse(a, child) for a in args]
                        cols = set().union(*[a.cols for a in args])
                        if len(cols) > max_cols:
                            continue
                    out.append(build(op, args, rt, f'{loc}@{pos}<{child.locus}>'))
    return out


def _reuse(colte, child):
    t = colte.dtype
    for n in sorted(child.cols):
        if COLTYPE[n] is t:
            return column(n)
    return colte
